"""C17  Every advertised time variable has exactly one sample per instant."""
import itertools
import os
import shutil
import tempfile

import gearpy.units as gu
from gearpy.units import Time

from gmc import menu, sim, si
from gmc.core import Acc

ID = 'C17'
RULE = ('element kinds with EVERY subset of optional data (spur/helical pair 2^3 x 2^3, wheel 2^2 x worm diameter 2 in both '
        'orientations, motor currents 2) hosted in 3 chain positions x ALL operation histories over {run 3, run with early '
        'stop, run 2 (continuation when a history exists), reset + re-init} to the depth; after every history: per advertised '
        'variable one sample per instant, sample kinds, last sample == live attribute, export and snapshot succeed; canon = '
        '(configuration, history); non-trivial = at least one optional datum present')
ASSUMPTIONS = ['configurations for which the documentation predicts a ValueError (contact stress whose mate lacks module or elastic modulus; '
               'force of a gear with a module but no mating) are checked for that error instead',
               'reset is only issued after at least one run since the last reset (resetting a never-simulated powertrain is outside the statement)',
               'export goes to a scratch directory created and removed by the check']
EXPLANATION = 'exhaustive data subsets x hosting chains x operation histories on the real solver / export / snapshot'

DT = [0.125, 'sec']
KIND_OF_VAR = {'angular position': 'AngularPosition', 'angular speed': 'AngularSpeed',
               'angular acceleration': 'AngularAcceleration', 'torque': 'Torque', 'driving torque': 'Torque',
               'load torque': 'Torque', 'tangential force': 'Force', 'bending stress': 'Stress',
               'contact stress': 'Stress', 'electric current': 'Current', 'pwm': None}
ATTR_OF_VAR = {v: v.replace(' ', '_') for v in KIND_OF_VAR}
EVENTS = ['R3', 'RS', 'R2', 'X', 'RM', 'NP']


def bounds(tier):
    return {'history_depth': 2 if tier == 'quick' else 4, 'events': EVENTS, 'hostings': '3 (+ an unmated gear with tooth data on a subset)',
            'data_subsets': 'spur 8x8, helical 8x8, worm->wheel 2x4, wheel->worm 4x2', 'motors': 2}


def subsets3():
    return list(itertools.product([False, True], repeat=3))


def gear_data(flags, m=[1.0, 'mm'], b=[5.0, 'mm'], E=[200.0, 'GPa']):
    d = {}
    if flags[0]:
        d['m'] = m
    if flags[1]:
        d['b'] = b
    if len(flags) > 2 and flags[2]:
        d['E'] = E
    return d


def configs():
    """(family, data flags) descriptions."""
    out = []
    for fam in ('spur', 'helical'):
        for fa in subsets3():
            for fb in subsets3():
                out.append((fam, fa, fb))
    for d in (False, True):
        for fw in itertools.product([False, True], repeat=2):
            out.append(('worm->wheel', (d,), fw))
            out.append(('wheel->worm', fw, (d,)))
            out.append(('worm->wheel-held-from-start', (d,), fw))   # self-locking, back-driving initial speed: held at instant 0
    return out


def make_spec(cfg, hosting, cur):
    fam, fa, fb = cfg
    motor = dict(menu.MOTOR_CUR if cur else menu.MOTOR_PLAIN)
    if cur == 'i0-only':
        motor.pop('imax')
    elif cur == 'imax-only':
        motor.pop('i0')
    J = [2.0, 'gm^2']
    pre_e, pre_l = [], []
    if hosting == 1:
        pre_e, pre_l = [{'k': 'F', 'J': J}], [{'t': 'J'}]
    if fam == 'spur':
        a = dict({'k': 'S', 'z': 12, 'J': J}, **gear_data(fa))
        b = dict({'k': 'S', 'z': 30, 'J': J}, **gear_data(fb))
        link = {'t': 'G', 'eta': 0.9}
        tail_e, tail_l = [], []
    elif fam == 'helical':
        a = dict({'k': 'H', 'z': 12, 'J': J, 'beta': [20.0, 'deg']}, **gear_data(fa))
        b = dict({'k': 'H', 'z': 30, 'J': J, 'beta': [20.0, 'deg']}, **gear_data(fb))
        link = {'t': 'G', 'eta': 0.9}
        tail_e, tail_l = [], []
    elif fam in ('worm->wheel', 'worm->wheel-held-from-start'):
        a = {'k': 'Wg', 'starts': 2, 'J': J, 'beta': [10.0, 'deg'], 'alpha': [20.0, 'deg']}
        if fa[0]:
            a['d'] = [10.0, 'mm']
        b = dict({'k': 'Ww', 'z': 30, 'J': J, 'beta': [10.0, 'deg'], 'alpha': [20.0, 'deg']}, **gear_data(fb))
        link = {'t': 'W', 'f': 0.1 if fam == 'worm->wheel' else 0.3}
        tail_e, tail_l = [], []
    else:
        a = dict({'k': 'Ww', 'z': 30, 'J': J, 'beta': [10.0, 'deg'], 'alpha': [20.0, 'deg']}, **gear_data(fa))
        b = {'k': 'Wg', 'starts': 2, 'J': J, 'beta': [10.0, 'deg'], 'alpha': [20.0, 'deg']}
        if fb[0]:
            b['d'] = [10.0, 'mm']
        link = {'t': 'W', 'f': 0.1}
        tail_e, tail_l = [{'k': 'S', 'z': 20, 'J': J}], [{'t': 'J'}]     # a worm gear cannot carry the load
    if hosting == 2:
        tail_e, tail_l = tail_e + [{'k': 'S', 'z': 25, 'J': J}], tail_l + [{'t': 'J'}]
    if hosting == 3:
        # a gear WITH tooth data that takes part in no mating (fixed joints only): it advertises a tangential force that
        # cannot be computed; either the run is refused or the samples are quantities -- never recorded placeholders
        tail_e, tail_l = tail_e + [dict({'k': 'S', 'z': 25, 'J': J}, **gear_data((True, True, True)))], tail_l + [{'t': 'J'}]
    els = [motor] + pre_e + [a, b] + tail_e
    links = [{'t': 'J'}] + pre_l + [link] + tail_l
    spec = {'elements': els, 'links': links, 'init': {'theta': [0.0, 'rad'], 'w': [0.0, 'rad/s']}}
    if fam == 'worm->wheel-held-from-start':
        spec['init'] = {'theta': [0.0, 'rad'], 'w': [-1.0, 'rad/s']}
    spec['load'] = ['const', 0.2 * menu.stall_at_output(spec)]
    return spec


def predicted_error(spec):
    """Documented ValueError the reference predicts for the first run, or None."""
    els, links = spec['elements'], spec['links']
    n = len(els)
    role = [None] * n
    mate = [None] * n
    for i, l in enumerate(links):
        if l['t'] in ('G', 'W'):
            role[i], mate[i] = 'master', i + 1
            role[i + 1], mate[i + 1] = 'slave', i
    for i, e in enumerate(els):
        has_force = (e['k'] in ('S', 'H', 'Ww') and 'm' in e) or (e['k'] == 'Wg' and 'd' in e)
        if has_force and role[i] is None:
            return 'force-without-mating'
        if e['k'] in ('S', 'H') and all(x in e for x in ('m', 'b', 'E')):
            o = els[mate[i]] if mate[i] is not None else None
            if o is None or 'm' not in o or 'E' not in o:
                return 'contact-mate-lacks-data'
    return None


def valid_histories(depth):
    out = []
    for d in range(1, depth + 1):
        for h in itertools.product(EVENTS, repeat=d):
            ran = False
            ok = True
            for e in h:
                if e == 'RM':
                    continue
                if e in ('X', 'NP'):
                    if not ran:
                        ok = False
                        break
                    ran = e == 'NP'
                else:
                    ran = True
            if ok and h[0] != 'RM' and not any(a == 'RM' and b == 'RM' for a, b in zip(h, h[1:])):
                out.append(h)
    return out


DUTY = [1, 0.55, 0.8, 0.3, 0.9, 0.65, 1, 0.45, 0.7, 0.95, 0.5, 0.85, 0.6, 1, 0.4, 0.75, 0.9, 0.35, 0.8, 0.5, 1, 1]


def do_event(m, e, controlled=False):
    """controlled: a scripted rule proposes a different duty cycle at every instant"""
    n = len(m.elements)
    duty = DUTY if controlled else None
    if e == 'R3':
        m.run(DT, [DT[0] * 3, 'sec'], duty=duty)
    elif e == 'R2':
        m.run(DT, [DT[0] * 2, 'sec'], duty=duty)
    elif e == 'RS':
        cur = si.q_si(m.elements[-1].angular_position)
        m.run(DT, [DT[0] * 4, 'sec'], duty=duty, stop=sim.make_stop(m, ['encoder', n - 1, '>=', [cur + 1e-4, 'rad']]))
    elif e == 'RM':
        # the user declares every mating of the chain again (same partners, same parameters)
        for i, link in enumerate(m.spec['links']):
            if link['t'] != 'J':
                sim.declare(m.elements[i], m.elements[i + 1], link)
    elif e == 'NP':
        # the user builds a SECOND Powertrain (and Solver) over the same, already simulated elements, resets it and
        # re-applies the initial conditions: the elements go back to an empty history whichever Powertrain object asks
        from gearpy.powertrain import Powertrain
        from gearpy.solver import Solver
        m.pt = Powertrain(motor=m.elements[0])
        m.pt.reset()
        m.apply_init()
        m.solver = Solver(powertrain=m.pt)
        m.run(DT, [DT[0] * 2, 'sec'], duty=duty)           # ... and simulates it
    else:
        m.pt.reset()
        m.apply_init()


def same_quantity(a, b):
    if a is b:
        return True
    if isinstance(a, (int, float)) or isinstance(b, (int, float)):
        return a == b
    if a is None or b is None:
        return False
    # equal as quantities (the library's own notion: same kind, same magnitude up to rounding, whatever the unit label)
    return type(a) is type(b) and si.close(si.q_si(a), si.q_si(b), 1e-12, 1e-300)


def inspect(acc, case, m, tag, tmp, do_io):
    nt = len(m.pt.time)
    mismatch = 'counts-consistent'
    for i, e in enumerate(m.elements):
        kind = m.spec['elements'][i]['k']
        for var, series in e.time_variables.items():
            acc.transitions += 1
            if len(series) != nt:
                mismatch = f'after-count-mismatch:{kind}/{var}'
                acc.violation(f'C17/sample-count/{kind}/{var}', 'one sample per recorded instant for every advertised variable', case,
                              {'element': i, 'var': var, 'samples': len(series), 'instants': nt, 'after': tag})
                continue
            want = KIND_OF_VAR.get(var)
            for s in series:
                ok = (isinstance(s, (int, float)) and not isinstance(s, bool)) if want is None else \
                    isinstance(s, getattr(gu, want))
                if not ok:
                    acc.violation(f'C17/sample-kind/{kind}/{var}', 'each sample is a quantity of the variable\'s kind', case,
                                  {'element': i, 'var': var, 'sample': str(s), 'after': tag})
                    break
            if nt and series:
                attr = ATTR_OF_VAR[var]
                live = getattr(e, attr, None)
                if not same_quantity(series[-1], live):
                    acc.violation(f'C17/last-sample-vs-attribute/{kind}/{var}', 'last sample equals the current attribute', case,
                                  {'element': i, 'var': var, 'last': str(series[-1]), 'live': str(live), 'after': tag})
    if do_io and nt:
        try:
            m.pt.export_time_variables(folder_path=os.path.join(tmp, 'x'))
        except Exception as ex:
            acc.violation(f'C17/export-fails/{type(ex).__name__}/{mismatch}', 'exporting a simulated powertrain never fails', case,
                          {'exc': repr(ex)[:200], 'after': tag})
        try:
            t = m.pt.time[-1]
            m.pt.snapshot(target_time=Time(t.value, t.unit), print_data=False)
        except Exception as ex:
            acc.violation(f'C17/snapshot-fails/{type(ex).__name__}/{mismatch}', 'taking a snapshot of a simulated powertrain never fails', case,
                          {'exc': repr(ex)[:200], 'after': tag})


def repair_and_rerun(acc, case, m, tmp):
    """A run was refused because a gear with tooth data takes part in no mating.  The user repairs the model -- the
    fixed joint that drives that gear is declared again as a gear mating -- builds a new Powertrain and Solver on the
    same elements and simulates: whatever the refused run left behind, the histories must be consistent again."""
    from gearpy.powertrain import Powertrain
    from gearpy.solver import Solver
    i = len(m.elements) - 1
    try:
        sim.declare(m.elements[i - 1], m.elements[i], {'t': 'G', 'eta': 0.9})
        m.pt = Powertrain(motor=m.elements[0])
        m.solver = Solver(powertrain=m.pt)
        m.apply_init()
        m.run(DT, [DT[0] * 3, 'sec'])
    except Exception as ex:
        acc.violation(f'C17/repaired-after-refusal/run-error/{type(ex).__name__}', 'a repaired model simulates', case, {'exc': repr(ex)[:200]})
        return
    inspect(acc, dict(case, repaired=True), m, 'refused+repaired+R3', tmp, do_io=True)
    acc.outcomes[('repaired-after-refusal', 'ok')] += 1


def check_history(acc, cfg, hosting, cur, hist, tmp, forgot_load=False):
    spec = make_spec(cfg, hosting, cur)
    case = {'kind': 'hist', 'cfg': [cfg[0], list(cfg[1]), list(cfg[2])], 'hosting': hosting, 'cur': cur, 'hist': list(hist), 'forgot_load': forgot_load}
    pred = predicted_error(spec)
    if forgot_load:
        spec['defer_load'] = True
    try:
        m = sim.Model(spec)
    except Exception as ex:
        acc.violation('C17/build-error', 'configuration builds', case, {'exc': repr(ex)[:200]})
        return
    acc.executions += 1
    if forgot_load:
        # the user forgets the external torque: the run is refused (or not); then the load is attached and work goes on
        try:
            m.run(DT, [DT[0] * 3, 'sec'])
        except Exception:
            acc.outcomes[('run-without-load', 'refused')] += 1
        else:
            acc.outcomes[('run-without-load', 'accepted')] += 1
        m.attach_load()
    for step, e in enumerate(hist):
        try:
            do_event(m, e, controlled=(cur is True))
            err = None
        except Exception as ex:
            err = (type(ex).__name__, str(ex)[:160])
        if pred is not None and err is not None and err[0] == 'ValueError':
            acc.outcomes[('documented-error', pred)] += 1      # (C09 judges whether the error must be raised)
            if pred == 'force-without-mating' and step == 0 and cfg[0] == 'spur' and hosting == 3 and not forgot_load:
                repair_and_rerun(acc, case, m, tmp)
            return
        if err is not None:
            acc.violation(f'C17/event-error/{e}/{err[0]}', 'runs, continuations, stops and resets succeed', case, {'error': err, 'step': step})
            return
        last = step == len(hist) - 1
        inspect(acc, case, m, '+'.join(hist[:step + 1]), tmp, do_io=last)
    acc.outcomes[('ok', len(hist))] += 1
    acc.cases += 1


def shards(tier):
    out = []
    cfgs = configs()
    for ci in range(len(cfgs)):
        for hosting in (0, 1, 2):
            out.append({'cfg': ci, 'hosting': hosting})
        if ci % 8 == 7 or cfgs[ci][0] != 'spur' and ci % 4 == 3:
            out.append({'cfg': ci, 'hosting': 3})
    return out


def run_shard(shard, tier):
    acc = Acc()
    cfg = configs()[shard['cfg']]
    depth = 2 if tier == 'quick' else 4
    hists = valid_histories(depth)
    tmp = tempfile.mkdtemp(prefix='gmc_c17_')
    try:
        for cur in (False, True, 'i0-only', 'imax-only'):
            if cur and tier == 'quick' and shard['hosting'] != 0:
                continue
            if isinstance(cur, str) and (shard['cfg'] % 16 != 5):
                continue                        # partial current data: on a few gear configurations only
            for h in hists:
                check_history(acc, cfg, shard['hosting'], cur, h, tmp)
                acc.nstates += 1
                if cur is False and shard['cfg'] % 4 == 1 and h[0] in ('R3', 'RS'):
                    check_history(acc, cfg, shard['hosting'], cur, h, tmp, forgot_load=True)
                    acc.nstates += 1
    finally:
        shutil.rmtree(tmp, ignore_errors=True)
    acc.sample({'family': cfg[0], 'data_first(m,b,E|d)': cfg[1], 'data_second': cfg[2], 'hosting': shard['hosting'],
                'history': list(hists[-1])})
    return acc


def replay(case):
    acc = Acc()
    if case.get('kind') == 'hist':
        tmp = tempfile.mkdtemp(prefix='gmc_c17_')
        try:
            cfg = (case['cfg'][0], tuple(case['cfg'][1]), tuple(case['cfg'][2]))
            check_history(acc, cfg, case['hosting'], case['cur'], tuple(case['hist']), tmp, forgot_load=case.get('forgot_load', False))
        finally:
            shutil.rmtree(tmp, ignore_errors=True)
        return acc.violations
    return run_shard(case['shard'], 'quick').violations
