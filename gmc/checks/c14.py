"""C14  Duty-cycle arbitration: one rule wins, default 1, always within [-1, 1]."""
import itertools
import math

from gearpy.motor_control import PWMControl

from gmc import menu, sim, si, rules_h as rh
from gmc.core import Acc

ID = 'C14'
RULE = ('(a) one step: EVERY multiset of 0..4 rules from the menu (four built-in kinds with overlapping and disjoint '
        'windows + scripted rules proposing None, 0.5, -3, +-1e9) x grid of states (time x position x speed); '
        '(b) simulations: every rule subset of size <= 3 over 8-instant runs on 2 models with recording proxies; '
        'canon = (rule multiset, state) resp. (rule subset, model, instant, proposals); non-trivial = at least one '
        'rule applicable')
ASSUMPTIONS = ['proposals are taken from the rules\' own apply() (C15 judges those values)',
               'a NaN proposal has no clipped value: any outcome other than a duty cycle in [-1,1] or a raised error is a violation']
EXPLANATION = 'exhaustive rule multisets x state grid on the real PWMControl; simulations with recording proxies'

MENU_Q = ['cA', 'cB', 'c0', 'reach', 'prop', 'lim', 'limlow', 'sNone', 's0', 's0.5', 's-3', 's1e9']
MENU_T = MENU_Q + ['cC', 's-1e9']
TIMES = [0.1, 0.45, 0.7, 2.5, 5.0]
POSITIONS = [-1.0, 0.5, 3.5, 8.5, 12.0]
SPEEDS = [0.0, 5.0, -5.0]


def bounds(tier):
    return {'menu': MENU_Q if tier == 'quick' else MENU_T, 'multiset_size_max': 4,
            'state_grid': [len(TIMES), len(POSITIONS), len(SPEEDS)], 'simulation_subset_size_max': 3,
            'simulation_instants': 8}


def base_spec(which=0):
    if which == 0:
        spec = menu.assign([('J', 'S'), ('G', 'S')], motor=menu.MOTOR_CUR,
                           init={'theta': [0.0, 'rad'], 'w': [0.0, 'rad/s']})
        spec['load'] = ['const', 0.2 * menu.stall_at_output(spec)]
    else:
        spec = menu.assign([('J', 'F'), ('J', 'S')], motor=menu.MOTOR_CUR,
                           init={'theta': [2.0, 'rad'], 'w': [30.0, 'rad/s']})
        spec['load'] = ['const', 0.05 * menu.stall_at_output(spec)]
    return spec


def shards(tier):
    mn = MENU_Q if tier == 'quick' else MENU_T
    out = []
    for size in range(0, 5):
        combos = list(itertools.combinations_with_replacement(mn, size))
        P = 1 if size < 3 else (4 if size == 3 else 16)
        for p in range(P):
            out.append({'mode': 'step', 'size': size, 'part': [p, P]})
    for which in (0, 1):
        for size in range(0, 4):
            out.append({'mode': 'sim', 'model': which, 'size': size})
    return out


def check_step(acc, rule_ids, t, th, w):
    spec = base_spec(0)
    chain = sim.chain_ref(spec)
    case = {'kind': 'step', 'rules': list(rule_ids), 't': t, 'theta': th, 'w': w}
    m = sim.Model(spec)
    rh.set_state(m, chain, t, th, w, motor_load=0.2 * chain.Tmax)
    motor = m.elements[0]
    # proposals from the rules' own apply()
    proposals = []
    for rid in rule_ids:
        try:
            proposals.append(rh.make_rule(rid, m).apply())
        except Exception as e:
            proposals.append(('exc', type(e).__name__))
    ctl = PWMControl(powertrain=m.pt)
    for rid in rule_ids:
        ctl.add_rule(rh.make_rule(rid, m))
    motor.pwm = 0.123          # sentinel: must be overwritten
    acc.transitions += 1
    try:
        ctl.apply_rules()
        outcome = 'ok'
    except ValueError:
        outcome = 'ValueError'
    except Exception as e:
        outcome = type(e).__name__
    live = [p for p in proposals if p is not None]
    kinds = '+'.join(sorted(set(rh.BUILTIN_KIND[r] for r, p in zip(rule_ids, proposals) if p is not None))) or 'none'
    acc.outcomes[(len(live) if len(live) < 2 else '>=2', outcome)] += 1
    if any(isinstance(p, tuple) for p in live):
        acc.violation(f'C14/rule-raised/{kinds}', 'rule apply() raised', case, {'proposals': [str(p) for p in proposals]})
        return
    if len(live) >= 2:
        if outcome != 'ValueError':
            acc.violation(f'C14/conflict-not-raised', '>= 2 applicable rules -> ValueError', case,
                          {'outcome': outcome, 'pwm': motor.pwm, 'proposals': [str(p) for p in proposals]})
        return
    if len(live) == 1:
        p = live[0]
        if isinstance(p, float) and math.isnan(p) or not rh.is_number(p):
            if outcome == 'ok' and not rh.in_range(motor.pwm):
                acc.violation(f'C14/duty-not-in-range/nan-proposal/{kinds}', 'every duty cycle is a number in [-1, 1]', case,
                              {'pwm': str(motor.pwm), 'proposal': str(p)})
            return
        exp = rh.clip(p)
    else:
        exp = 1
    if outcome != 'ok':
        acc.violation(f'C14/unexpected-{outcome}/{kinds}', 'apply_rules succeeds with <= 1 applicable rule', case,
                      {'proposals': [str(p) for p in proposals]})
        return
    if motor.pwm != exp:
        clause = 'default 1 when no rule is applicable' if not live else 'duty = clip(single proposal)'
        acc.violation(f'C14/arbitration/{"default" if not live else "single"}/{kinds}', clause, case,
                      {'pwm': motor.pwm, 'expected': exp, 'proposals': [str(p) for p in proposals]})
    if not rh.in_range(motor.pwm):
        acc.violation(f'C14/duty-not-in-range/{kinds}', 'duty in [-1,1]', case, {'pwm': str(motor.pwm)})


def check_sim(acc, which, rule_ids, late=0):
    """late: the last `late` rules are added to the control only after a first run of 4 instants (then the run continues).
    The proposals at every instant are taken by a probe rule that asks every installed rule itself."""
    spec = base_spec(which)
    case = {'kind': 'sim', 'model': which, 'rules': list(rule_ids), 'late': late}
    m = sim.Model(spec)
    log = []
    ctl = PWMControl(powertrain=m.pt)
    installed = []
    ctl.add_rule(rh.Probe(installed, m, log))
    early = len(rule_ids) - late
    for rid in rule_ids[:early]:
        r = rh.make_rule(rid, m)
        installed.append(r)
        ctl.add_rule(r)
    err = None
    try:
        if late:
            m.run([0.125, 'sec'], [0.375, 'sec'], control=ctl)
            for rid in rule_ids[early:]:
                r = rh.make_rule(rid, m)
                installed.append(r)
                ctl.add_rule(r)
            m.run([0.125, 'sec'], [0.5, 'sec'], control=ctl)
        else:
            m.run([0.125, 'sec'], [0.875, 'sec'], control=ctl)
    except Exception as e:
        err = (type(e).__name__, str(e)[:120])
    acc.executions += 1
    pwm = m.elements[0].time_variables.get('pwm', [])
    nrec = len(pwm)
    ntime = len(m.pt.time)
    byk = {k: props for k, props in log}
    kinds_all = '+'.join(sorted(set(rh.BUILTIN_KIND[r] for r in rule_ids))) or 'none'
    raised_at = None
    for k in range(ntime):
        acc.transitions += 1
        if k not in byk:
            if err and k == ntime - 1:
                break
            acc.violation('C14/sim/rules-not-consulted', 'the control consults its rules at every instant (its first rule was not asked at this one)', case, {'instant': k})
            return
        props = byk[k]
        ids_k = rule_ids[:len(props)]
        live = [v for v in props if v is not None]
        acc.state((which, tuple(rule_ids), late, k, tuple(str(v) for v in props)))
        if any(isinstance(v, tuple) for v in live):
            raised_at = k
            break
        if len(live) >= 2:
            raised_at = k
            if not (err and err[0] == 'ValueError' and nrec == k):
                acc.violation('C14/sim/conflict-continued', 'two applicable rules: the run raises ValueError at that instant and records nothing after it', case,
                              {'instant': k, 'error': err, 'recorded': nrec, 'proposals': [str(v) for v in props]})
            break
        if k >= nrec:
            break
        if len(live) == 1:
            p = live[0]
            if not rh.is_number(p) or (isinstance(p, float) and math.isnan(p)):
                if not rh.in_range(pwm[k]):
                    kinds = '+'.join(sorted(set(rh.BUILTIN_KIND[r] for r, v in zip(ids_k, props) if v is not None)))
                    acc.violation(f'C14/duty-not-in-range/nan-proposal/{kinds}', 'every recorded duty cycle is a number in [-1, 1]', case,
                                  {'instant': k, 'pwm': str(pwm[k]), 'proposal': str(p)})
                    break
                continue
            exp = rh.clip(p)
        else:
            exp = 1
        if pwm[k] != exp:
            acc.violation(f'C14/sim/arbitration/{kinds_all}', 'recorded duty = clip(single proposal) or 1', case,
                          {'instant': k, 'pwm': pwm[k], 'expected': exp, 'proposals': [str(v) for v in props]})
            break
    for k, v in enumerate(pwm):
        nan_prop = any(isinstance(x, float) and math.isnan(x) for x in byk.get(k, []))
        if not rh.in_range(v) and raised_at is None and not nan_prop:
            acc.violation(f'C14/sim/recorded-duty-not-in-range/{kinds_all}', 'every recorded duty cycle lies in [-1,1]', case,
                          {'instant': k, 'pwm': str(v)})
            break
    if err and raised_at is None and err[0] != 'ValueError':
        acc.violation(f'C14/sim/run-error/{err[0]}', 'run succeeds', case, {'error': err})
    acc.outcomes[('sim', 'raised' if err else 'completed', nrec)] += 1
    acc.cases += 1


def check_empty_control(acc, which, preset):
    """A control WITHOUT rules: no rule is applicable, so every recorded duty cycle is 1, whatever the motor's duty was."""
    spec = base_spec(which)
    case = {'kind': 'empty', 'model': which, 'preset': preset}
    m = sim.Model(spec)
    m.elements[0].pwm = preset
    ctl = PWMControl(powertrain=m.pt)
    try:
        m.run([0.125, 'sec'], [0.5, 'sec'], control=ctl)
    except Exception as e:
        acc.violation(f'C14/empty-control/run-error/{type(e).__name__}', 'run succeeds', case, {'exc': repr(e)[:200]})
        return
    acc.executions += 1
    pwm = m.elements[0].time_variables.get('pwm', [])
    acc.transitions += len(pwm)
    acc.state(('empty', which, preset))
    if any(v != 1 for v in pwm):
        acc.violation('C14/empty-control/default', 'duty cycle is 1 when no rule is applicable (a control without rules)', case,
                      {'recorded': pwm, 'motor_duty_before_the_run': preset})


def run_shard(shard, tier):
    acc = Acc()
    mn = MENU_Q if tier == 'quick' else MENU_T
    if shard['mode'] == 'step':
        p, P = shard['part']
        combos = itertools.combinations_with_replacement(mn, shard['size'])
        for idx, rule_ids in enumerate(combos):
            if idx % P != p:
                continue
            for t in TIMES:
                for th in POSITIONS:
                    for w in SPEEDS:
                        check_step(acc, rule_ids, t, th, w)
                        acc.nstates += 1
                        acc.cases += 1
                        acc.executions += 1
        acc.sample({'mode': 'one step', 'rules': list(rule_ids) if shard['size'] else [], 'state': {'t': t, 'theta': th, 'w': w}})
    else:
        if shard['size'] == 0:
            for preset in (0.25, 0, -1, 1):
                check_empty_control(acc, shard['model'], preset)
        for rule_ids in itertools.combinations(mn, shard['size']):
            check_sim(acc, shard['model'], rule_ids)
            if shard['size'] >= 1:
                check_sim(acc, shard['model'], rule_ids, late=1)
        acc.sample({'mode': 'simulation 8 instants', 'model': shard['model'], 'rules': list(rule_ids) if shard['size'] else []})
    return acc


def replay(case):
    acc = Acc()
    if case.get('kind') == 'step':
        check_step(acc, tuple(case['rules']), case['t'], case['theta'], case['w'])
    elif case.get('kind') == 'empty':
        check_empty_control(acc, case['model'], case['preset'])
    elif case.get('kind') == 'sim':
        check_sim(acc, case['model'], tuple(case['rules']), late=case.get('late', 0))
    else:
        return run_shard(case['shard'], 'quick').violations
    return acc.violations
