"""C02  Torque propagation and balance along the chain at every instant."""
import itertools

from gmc import menu, sim, traj, si
from gmc.core import Acc

ID = 'C02'
RULE = ('every grammar chain up to the bound x {plain motor, motor with current data} x load function '
        'menu x ALL duty-cycle sequences over {1, 0.3, 0, -1} of the given depth (scripted rule) '
        '(+ self-locking variant of worm chains); every recorded instant is a state (canon = bit pattern of '
        'every recorded torque + duty + chain); non-trivial = non-zero load or driving torque')
ASSUMPTIONS = ['efficiency of a joint is 1; worm efficiencies from the documented friction formulas',
               'motor characteristic not compared within 1e-9 of the dead-zone boundary',
               'the load callback is wrapped by a recorder (public seam)']
EXPLANATION = 'all environment (duty) sequences to the depth on every configuration; reference relations checked on every recorded instant'

DUTIES = [1, 0.3, 0, -1]
LOADS = [('const', 0.3), ('const', -0.4), ('speed', 0.02), ('pos', 0.05), ('time', 0.4), ('switch', 0.5)]
DT = [0.125, 'sec']


def bounds(tier):
    return {'chain_elements_max': 4 if tier == 'quick' else 5, 'duty_depth': depth(tier) if tier == 'quick' else '4 on chains <= 4 elements, 3 on 5-element chains',
            'duty_alphabet': DUTIES, 'loads': LOADS}


def depth(tier):
    return 3 if tier == 'quick' else 4


def shards(tier):
    nmax = 4 if tier == 'quick' else 5
    out = []
    for c in menu.chains(2, nmax):
        for cur in (False, True):
            out.append({'chain': c, 'cur': cur})
    return out


def load_spec(load, stall):
    kind, scale = load
    if kind == 'switch':
        return ['switch', scale * stall, 0.2]
    return [kind, scale * stall]


def redeclare(spec):
    """Every jointed gear of the chain was earlier the slave of a mating with a spare gear of its own kind
    (a relation the user then replaced by the joint)."""
    spares, pre = [], []
    n = len(spec['elements'])
    for i, link in enumerate(spec['links']):
        e = spec['elements'][i + 1]
        if link['t'] != 'J' or e['k'] not in ('S', 'H', 'Ww', 'Wg'):
            continue
        idx = n + len(spares)
        if e['k'] in ('S', 'H'):
            sp = dict(e, z=17)
            pre.append([idx, i + 1, {'t': 'G', 'eta': 0.5}])
        elif e['k'] == 'Ww':
            sp = {'k': 'Wg', 'starts': 1, 'J': e['J'], 'beta': e['beta'], 'alpha': e['alpha']}
            pre.append([idx, i + 1, {'t': 'W', 'f': 0.05}])
        else:
            sp = {'k': 'Ww', 'z': 33, 'J': e['J'], 'beta': e['beta'], 'alpha': e['alpha']}
            pre.append([idx, i + 1, {'t': 'W', 'f': 0.05}])
        spares.append(sp)
    spec['spares'], spec['pre_links'] = spares, pre
    return bool(pre)


def check_case(acc, chain_l, cur, locking, load, duty, init=None, redeclared=False, teeth_mode='rotating', reeta=False, scale=None):
    chain_l = [tuple(x) for x in chain_l]
    spec = menu.assign(chain_l, motor=menu.MOTOR_CUR if cur else menu.MOTOR_PLAIN, locking=locking,
                       init=init or ({'theta': [0.2, 'rad'], 'w': [1.5, 'rad/s']} if load[0] != 'pos' else
                                     {'theta': [-20.5, 'rad'] if duty[0] == 1 else [7.5, 'rad'], 'w': [1.5, 'rad/s']}),
                       teeth_mode=teeth_mode)      # position-dependent loads start several revolutions away from 0
    if redeclared and not redeclare(spec):
        return
    if scale:
        spec = menu.scaled(spec, scale)          # micro-mechanism: torques and inertias x scale, written in kNm / kgm^2
        spec['declare_order'] = 'reverse'        # ... whose relations are declared from the output back to the motor
    if teeth_mode == 'equal':
        spec['declare_order'] = 'matings-first'
        spec['load_unit'] = ['Nm', 'mNm', 'kgfcm', 'gfmm']     # ... and the load function answers in another unit at every instant
    stall = menu.stall_at_output(spec)
    spec['load'] = load_spec(load, stall)
    d = len(duty)
    case = {'kind': 'case', 'chain': chain_l, 'cur': cur, 'locking': locking, 'load': list(load),
            'duty': list(duty), 'redeclared': redeclared, 'teeth_mode': teeth_mode, 'reeta': reeta, 'scale': scale}
    ops = [('run', DT, [DT[0] * (d - 1), 'sec'], list(duty), None)]
    if reeta:
        # after the first run a gear mating is declared again with another efficiency; same Solver continues
        gi = next((i for i, l in enumerate(spec['links']) if l['t'] == 'G'), None)
        if gi is None:
            return
        ops += [('redeclare', gi, {'t': 'G', 'eta': 0.6}), ('run', DT, [DT[0] * 2, 'sec'], list(duty) + [duty[-1], duty[0]], None)]
    m, info = sim.run_schedule(spec, ops)
    acc.executions += 1
    if info['error']:
        acc.violation(f'C02/run-error/{info["error"][0]}', 'simulation runs', case, {'error': info['error']})
        return
    chain0 = sim.chain_ref(spec)
    chain = sim.chain_ref(m.spec)
    obs_all = m.observe()
    name = menu.chain_name(chain_l)
    k0 = info['spec_changes'][0][0] if info.get('spec_changes') else None

    def emit(sfx, clause, k, detail):
        dd = dict(detail)
        dd.update(instant=k, chain=name)
        acc.violation(f'C02/{sfx}' + ('/after-redeclaration' if redeclared else '') + ('/unit-ratio-mating' if teeth_mode == 'equal' else '') + ('/efficiency-redeclared-between-runs' if reeta else '') + ('/micro-mechanism' if scale else ''), clause, case, dd)

    # efficiency attributes: joints must carry 1
    for i in range(1, chain.n):
        eta = m.elements[i].master_gear_efficiency
        if not si.close(eta, chain.etas[i], 1e-12):
            acc.violation(f'C02/efficiency-attribute/{spec["links"][i-1]["t"]}' + ('/after-redeclaration' if redeclared else ''),
                          'efficiency attribute = reference (1 for a joint)', case,
                          {'i': i, 'got': eta, 'ref': chain.etas[i]})
    load_fn = lambda k, t, th, w: sim.load_value(spec['load'], k, t, th, w)
    if k0 is None:
        obs = obs_all
        acc.transitions += traj.torques(obs, chain, emit, load_fn=load_fn, load_calls=m.load_calls)
    else:
        nk_all = len(obs_all['time'])
        acc.transitions += traj.torques(sim.slice_obs(obs_all, 0, k0), chain0, emit)
        acc.transitions += traj.torques(sim.slice_obs(obs_all, k0, nk_all), chain, emit)
        obs = obs_all
    nk = len(obs['time'])
    for k in range(nk):
        key = (name, cur, obs['el'][0]['pwm'][k],
               tuple((e['driving torque'][k], e['load torque'][k], e['torque'][k]) for e in obs['el']))
        acc.state(key)
    acc.outcomes[(nk, tuple(sorted(set(traj.sgn(x) for x in obs['el'][0]['driving torque']))))] += 1
    acc.cases += 1


def run_shard(shard, tier):
    acc = Acc()
    chain_l = [tuple(x) for x in shard['chain']]
    variants = [False, True] if menu.has_worm_drive(chain_l) else [False]
    d = depth(tier)
    if len(chain_l) + 1 >= 5:
        d = 3                                   # 5-element chains: depth 3 also in the thorough tier
    first = True
    has_mating = any(lt in ('G', 'W') for lt, _ in chain_l)
    for locking in variants:
        for load in LOADS:
            for duty in itertools.product(DUTIES, repeat=d):
                check_case(acc, chain_l, shard['cur'], locking, load, duty)
                if duty[0] == 1 and duty[-1] != duty[0]:
                    # the same chain assembled after a history of re-declared relations
                    check_case(acc, chain_l, shard['cur'], locking, load, duty, redeclared=True)
                if has_mating and duty[0] == duty[1] == 1:
                    check_case(acc, chain_l, shard['cur'], locking, load, duty, reeta=True)
                if has_mating and duty[0] != duty[1]:
                    # every mating with ratio exactly 1 (equal teeth): ratio and efficiency must not be confused with a joint
                    check_case(acc, chain_l, shard['cur'], locking, load, duty, teeth_mode='equal')
                if duty[0] == 0.3:
                    check_case(acc, chain_l, shard['cur'], locking, load, duty, scale=1e-9)
                if first:
                    acc.sample({'chain': menu.chain_name(chain_l), 'motor_with_current': shard['cur'],
                                'locking': locking, 'load': load, 'duty_sequence': duty})
                    first = False
    return acc


def replay(case):
    acc = Acc()
    if case.get('kind') == 'case':
        check_case(acc, case['chain'], case['cur'], case['locking'], tuple(case['load']), tuple(case['duty']), redeclared=case.get('redeclared', False), teeth_mode=case.get('teeth_mode', 'rotating'), reeta=case.get('reeta', False), scale=case.get('scale'))
        return acc.violations
    return run_shard(case['shard'], 'quick').violations
