"""C07  Results do not depend on the units inputs are expressed in."""
import copy
import itertools
import math

from gearpy.motor_control import PWMControl
from gearpy.motor_control.rules import (ConstantPWM, ReachAngularPosition, StartLimitCurrent,
                                        StartProportionalToAngularPosition)
from gearpy.sensors import AbsoluteRotaryEncoder, Tachometer, Timer
from gearpy.units import (Angle, AngularPosition, Current, Time, TimeInterval)

from gmc import menu, sim, si
from gmc.core import Acc

ID = 'C07'
RULE = ('a menu of models that together use every input quantity (motor with currents; spur, helical, worm/wheel stages with all optional data; '
        'every rule kind; every sensor kind in a stop condition; dt, T of first and continued runs; initial conditions; unit of the load '
        'callback) x schedules; base = every quantity in the unit it is written in; ALL assignments that re-express ONE quantity in each '
        'other unit of its kind (covers every unit list exhaustively), then all assignments changing TWO quantities (quick: interacting '
        'pairs; thorough: all pairs); metamorphic oracle against the base run; canon = (model, unit assignment)')
ASSUMPTIONS = ['re-expressed values are the correctly rounded conversions by gmc/si.py',
               'outputs compared in SI at 1e-8 relative (scale = largest magnitude of the series)',
               'base magnitudes keep inequality decisions (stop thresholds, rule windows, helix <= max, dt < T) away from their thresholds; equality constraints on physically equal inputs are deliberately kept']
EXPLANATION = 'deviation-bounded exhaustive enumeration of unit assignments; differential oracle between two executions of the real code'

KIND_OF_KEY = {'J': 'InertiaMoment', 'w0': 'AngularSpeed', 'Tmax': 'Torque', 'i0': 'Current', 'imax': 'Current',
               'm': 'Length', 'b': 'Length', 'd': 'Length', 'E': 'Stress', 'beta': 'Angle', 'alpha': 'Angle',
               'theta': 'AngularPosition', 'w': 'AngularSpeed', 'dt': 'TimeInterval', 'T': 'TimeInterval',
               'start': 'Time', 'duration': 'TimeInterval', 'target': 'AngularPosition', 'brake': 'Angle',
               'limit': 'Current'}
SENSOR_THR_KIND = {'encoder': 'AngularPosition', 'tachometer': 'AngularSpeed', 'amperometer': 'Current'}
MODELS = ['spur', 'helical', 'worm', 'wheel-drives', 'flywheel', 'overhauled', 'locking']


def bounds(tier):
    return {'models': MODELS, 'deviation_bound': 2, 'pairs': 'interacting pairs' if tier == 'quick' else 'all pairs'}


def scenario(name):
    J = [2.0, 'gm^2']
    full = {'m': [1.0, 'mm'], 'b': [5.0, 'mm'], 'E': [200.0, 'GPa']}
    s = {'name': name, 'load_unit': 'Nm', 'rules': [], 'stop': None,
         'runs': [{'dt': [0.125, 'sec'], 'T': [1.0, 'sec']}]}
    if name == 'spur':
        s['elements'] = [dict(menu.MOTOR_CUR), dict({'k': 'S', 'z': 12, 'J': J}, **full),
                         dict({'k': 'S', 'z': 30, 'J': [300.0, 'gcm^2']}, **full)]
        s['links'] = [{'t': 'J'}, {'t': 'G', 'eta': 0.9}]
        s['init'] = {'theta': [0.0, 'rad'], 'w': [0.0, 'rad/s']}
        s['loadf'] = ['mix', 0.3, 0.0, 0.0, 0.0]
        s['rules'] = [{'r': 'prop', 'target': [0.25, 'rad'], 'g': 2},
                      {'r': 'constant', 'start': [0.6875, 'sec'], 'duration': [0.25, 'sec'], 'value': 0.4}]
        s['runs'] = [{'dt': [0.125, 'sec'], 'T': [0.5, 'sec']}, {'dt': [0.125, 'sec'], 'T': [0.75, 'sec']}]
    elif name == 'helical':
        hel = {'beta': [20.0, 'deg']}
        s['elements'] = [dict(menu.MOTOR_PLAIN), dict({'k': 'H', 'z': 15, 'J': J}, **full, **hel),
                         dict({'k': 'H', 'z': 40, 'J': [5.0, 'kgcm^2']}, **full, **hel)]
        s['links'] = [{'t': 'J'}, {'t': 'G', 'eta': 0.8}]
        s['init'] = {'theta': [10.0, 'deg'], 'w': [30.0, 'rpm']}
        s['loadf'] = ['mix', 0.2, 0.0, 0.0, 0.3]
        s['stop'] = ['tachometer', 2, '>=', None]
    elif name == 'worm':
        s['elements'] = [dict(menu.MOTOR_CUR),
                         {'k': 'Wg', 'starts': 2, 'J': J, 'beta': [10.0, 'deg'], 'alpha': [14.5, 'deg'], 'd': [10.0, 'mm']},
                         {'k': 'Ww', 'z': 30, 'J': J, 'beta': [10.0, 'deg'], 'alpha': [14.5, 'deg'], 'm': [1.0, 'mm'], 'b': [5.0, 'mm']}]
        s['links'] = [{'t': 'J'}, {'t': 'W', 'f': 0.05}]
        s['init'] = {'theta': [0.0, 'rad'], 'w': [0.0, 'rad/s']}
        s['loadf'] = ['mix', 0.1, 0.0, 0.0, 0.0]
        s['rules'] = [{'r': 'limit', 'target': [0.0789, 'rad'], 'limit': [1.1, 'A']}]
        s['stop'] = ['amperometer', 0, '<=', None]
    elif name == 'wheel-drives':
        s['elements'] = [dict(menu.MOTOR_CUR),
                         {'k': 'Ww', 'z': 30, 'J': J, 'beta': [20.0, 'deg'], 'alpha': [30.0, 'deg'], 'm': [1.0, 'mm'], 'b': [5.0, 'mm']},
                         {'k': 'Wg', 'starts': 3, 'J': J, 'beta': [20.0, 'deg'], 'alpha': [30.0, 'deg'], 'd': [10.0, 'mm']},
                         {'k': 'S', 'z': 20, 'J': J}]
        s['links'] = [{'t': 'J'}, {'t': 'W', 'f': 0.05}, {'t': 'J'}]
        s['init'] = {'theta': [0.0, 'rad'], 'w': [0.0, 'rad/s']}
        s['loadf'] = ['mix', 0.2, 0.0, 0.0, 0.0]
        s['rules'] = [{'r': 'reach', 'target': [9.876, 'rot'], 'brake': [1234.5, 'deg']}]
        s['stop'] = ['encoder', 3, '>', None]
    elif name == 'overhauled':
        # the external load HELPS the motor (negative load torque): static errors, currents and stops change sign
        s['elements'] = [dict(menu.MOTOR_CUR), {'k': 'S', 'z': 12, 'J': J}, {'k': 'S', 'z': 30, 'J': [300.0, 'gcm^2']}]
        s['links'] = [{'t': 'J'}, {'t': 'G', 'eta': 0.9}]
        s['init'] = {'theta': [0.0, 'rad'], 'w': [0.0, 'rad/s']}
        s['loadf'] = ['mix', -0.15, 0.0, 0.0, 0.0]
        s['rules'] = [{'r': 'reach', 'target': [2.0, 'rad'], 'brake': [1.5, 'rad']}]
        s['runs'] = [{'dt': [0.125, 'sec'], 'T': [0.625, 'sec']}, {'dt': [0.125, 'sec'], 'T': [0.5, 'sec']}]
    elif name == 'flywheel':
        s['elements'] = [dict(menu.MOTOR_PLAIN), {'k': 'F', 'J': [120.0, 'kgmm^2']}, {'k': 'S', 'z': 25, 'J': [0.8, 'gm^2']}]
        s['links'] = [{'t': 'J'}, {'t': 'J'}]
        s['init'] = {'theta': [-0.3, 'rot'], 'w': [-400.0, 'deg/s']}
        s['loadf'] = ['mix', 0.1, 0.0, 0.0, 0.5]
        s['runs'] = [{'dt': [0.125, 'sec'], 'T': [0.375, 'sec']}, {'dt': [0.0625, 'sec'], 'T': [0.5, 'sec']}]
    else:
        s['elements'] = [dict(menu.MOTOR_CUR),
                         {'k': 'Wg', 'starts': 1, 'J': J, 'beta': [5.0, 'deg'], 'alpha': [20.0, 'deg']},
                         {'k': 'Ww', 'z': 40, 'J': J, 'beta': [5.0, 'deg'], 'alpha': [20.0, 'deg']}]
        s['links'] = [{'t': 'J'}, {'t': 'W', 'f': 0.3}]
        s['init'] = {'theta': [0.0, 'rad'], 'w': [0.0, 'rad/s']}
        s['loadf'] = ['mix', 0.0, 0.0, 0.0, 6.0]
        s['rules'] = [{'r': 'constant', 'start': [0.0, 'sec'], 'duration': [0.1875, 'sec'], 'value': 0.03},   # inside the dead band
                      {'r': 'constant', 'start': [0.3125, 'sec'], 'duration': [0.25, 'sec'], 'value': 0},
                      {'r': 'constant', 'start': [0.6875, 'sec'], 'duration': [10.0, 'sec'], 'value': -0.8}]
        s['load_unit'] = 'mNm'
    return s


# -- slots ----------------------------------------------------------------------------
def slots(s):
    """[(path, kind)] for every input quantity of the scenario."""
    out = []
    for i, e in enumerate(s['elements']):
        for k, v in e.items():
            if k in KIND_OF_KEY and isinstance(v, list):
                out.append((('elements', i, k), KIND_OF_KEY[k]))
    for k in ('theta', 'w'):
        out.append((('init', k), KIND_OF_KEY[k]))
    for i, r in enumerate(s['runs']):
        out.append((('runs', i, 'dt'), 'TimeInterval'))
        out.append((('runs', i, 'T'), 'TimeInterval'))
    for i, r in enumerate(s['rules']):
        for k, v in r.items():
            if k in KIND_OF_KEY and isinstance(v, list):
                out.append((('rules', i, k), KIND_OF_KEY[k]))
    if s['stop'] is not None:
        out.append((('stop', 3), SENSOR_THR_KIND[s['stop'][0]]))
    out.append((('load_unit',), 'Torque#unit'))
    return out


def get(s, path):
    x = s
    for p in path:
        x = x[p]
    return x


def setp(s, path, val):
    x = s
    for p in path[:-1]:
        x = x[p]
    x[path[-1]] = val


def slot_name(s, path):
    if path[0] == 'elements':
        return f"{s['elements'][path[1]]['k']}{path[1]}.{path[2]}"
    if path[0] == 'rules':
        return f"rule-{s['rules'][path[1]]['r']}.{path[2]}"
    if path[0] == 'runs':
        return f'run{path[1] + 1}.{path[2]}'
    if path[0] == 'stop':
        return f"stop-{s['stop'][0]}.threshold"
    return '.'.join(str(p) for p in path)


def slot_key(s, path):
    """Name of a slot by the role of the quantity (not by element position)."""
    if path[0] == 'elements':
        return path[2]
    if path[0] == 'rules':
        return f"{s['rules'][path[1]]['r']}.{path[2]}"
    if path[0] == 'runs':
        return f'run{path[1] + 1}.{path[2]}'
    if path[0] == 'stop':
        return f"stop-{s['stop'][0]}.threshold"
    return '.'.join(str(p) for p in path)


def reexpress(s, path, kind, unit, inplace=False):
    if kind == 'Torque#unit':
        setp(s, path, unit)
        return
    v, u = get(s, path)[:2]
    if inplace:
        setp(s, path, [v, u, 'inplace', unit])       # built as written, then .to(unit, inplace=True) (see sim.Q)
    else:
        setp(s, path, [si.convert(v, kind, u, unit), unit])


def alt_units(s, path, kind):
    if kind == 'Torque#unit':
        return [u for u in si.UNITS['Torque'] if u != get(s, path)]
    return [u for u in si.UNITS[kind] if u != get(s, path)[1]]


# -- execution --------------------------------------------------------------------------
LIVE_ATTRS = {'inertia_moment': 'InertiaMoment', 'no_load_speed': 'AngularSpeed', 'maximum_torque': 'Torque',
              'no_load_electric_current': 'Current', 'maximum_electric_current': 'Current', 'module': 'Length',
              'face_width': 'Length', 'elastic_modulus': 'Stress', 'helix_angle': 'Angle', 'pressure_angle': 'Angle',
              'reference_diameter': 'Length'}


CALLBACK_ARGS = {'time': 'Time', 'angular_position': 'AngularPosition', 'angular_speed': 'AngularSpeed'}


def execute(s, live=None, callback=None):
    """Build, run the schedule; return ('ok', observation, snapshot) or (phase, exception class).
    callback = (argument name, unit): the user's load function re-expresses that argument IN PLACE (the same physical
    value, written in another unit) every time it is consulted -- the objects it is handed are the solver's own.
    live = (element index, attribute, unit): after construction the quantity the element's property hands out is
    converted IN PLACE to that unit by the user (same magnitude), before anything is simulated."""
    spec = {'elements': s['elements'], 'links': s['links'], 'init': s['init'], 'load_unit': s['load_unit']}
    try:
        m = sim.Model(dict(spec, load=['const', 0.0]))
    except Exception as ex:
        return ('construction', type(ex).__name__, str(ex)[:120])
    if live is not None:
        try:
            q = getattr(m.elements[live[0]], live[1])
            q.to(live[2], inplace=True)
        except Exception as ex:
            return ('live-conversion', type(ex).__name__, str(ex)[:120])
    if callback is not None:
        good = m.elements[-1].external_torque

        def reexpressing_load(time, angular_position, angular_speed):
            r = good(time=time, angular_position=angular_position, angular_speed=angular_speed)
            {'time': time, 'angular_position': angular_position, 'angular_speed': angular_speed}[callback[0]].to(callback[1], inplace=True)
            return r
        m.elements[-1].external_torque = reexpressing_load
    stall = menu.stall_at_output(spec)
    lf = s['loadf']
    m.load = ['mix', lf[1] * stall, lf[2] * stall, lf[3] * stall, lf[4] * stall]
    expected = 1 + sum(round(si.si(r['T'][0], 'TimeInterval', r['T'][1]) / si.si(r['dt'][0], 'TimeInterval', r['dt'][1]))
                       for r in s['runs'])
    m.max_instants = 5 * expected + 20
    ctl = None
    try:
        if s['rules']:
            ctl = PWMControl(powertrain=m.pt)
            last, motor = m.elements[-1], m.elements[0]
            for r in s['rules']:
                if r['r'] == 'constant':
                    ctl.add_rule(ConstantPWM(timer=Timer(sim.Q(Time, r['start']), sim.Q(TimeInterval, r['duration'])), powertrain=m.pt,
                                             target_pwm_value=r['value']))
                elif r['r'] == 'prop':
                    ctl.add_rule(StartProportionalToAngularPosition(encoder=AbsoluteRotaryEncoder(last), powertrain=m.pt,
                                                                    target_angular_position=sim.Q(AngularPosition, r['target']),
                                                                    pwm_min_multiplier=r['g']))
                elif r['r'] == 'reach':
                    ctl.add_rule(ReachAngularPosition(encoder=AbsoluteRotaryEncoder(last), powertrain=m.pt,
                                                      target_angular_position=sim.Q(AngularPosition, r['target']),
                                                      braking_angle=sim.Q(Angle, r['brake'])))
                else:
                    ctl.add_rule(StartLimitCurrent(encoder=AbsoluteRotaryEncoder(last), tachometer=Tachometer(motor), motor=motor,
                                                   target_angular_position=sim.Q(AngularPosition, r['target']),
                                                   limit_electric_current=sim.Q(Current, r['limit'])))
        stop = sim.make_stop(m, s['stop']) if s['stop'] is not None and s['stop'][3] is not None else None
    except Exception as ex:
        return ('control-setup', type(ex).__name__, str(ex)[:120])
    for i, r in enumerate(s['runs']):
        try:
            m.run(r['dt'], r['T'], control=ctl, stop=stop if i == 0 else None)
        except Exception as ex:
            return (f'run{i + 1}', type(ex).__name__, str(ex)[:120])
    obs = m.observe()
    snap = None
    try:
        ts = obs['time']
        snap = {}
        # inside the first and inside the last recorded interval (histories may change unit along the way)
        for tag, tmid in (('first', (ts[0] + ts[1]) / 2.0), ('last', (ts[-2] + ts[-1]) / 2.0)):
            df = m.pt.snapshot(target_time=Time(tmid, 'sec'), print_data=False)
            snap.update({(tag + ':' + str(r), c): float(df.loc[r, c]) for r in df.index for c in df.columns})
    except Exception as ex:
        return ('snapshot', type(ex).__name__, str(ex)[:120])
    return ('ok', obs, snap)


def prepare(name):
    """Base scenario with its stop threshold placed midway between two samples of its own unstopped run."""
    s = scenario(name)
    if s['stop'] is not None:
        s0 = copy.deepcopy(s)
        s0['stop'] = None
        res = execute(s0)
        if res[0] != 'ok':
            return s, res
        sensor, idx, _, _ = s['stop']
        var = sim.SENSOR_KIND[sensor][1]
        series = res[1]['el'][idx][var]
        unit = {'encoder': 'rad', 'tachometer': 'rad/s', 'amperometer': 'A'}[sensor]
        span = max(series) - min(series)
        chosen = None
        for k in range(1, len(series) - 2):
            thr = (series[k] + series[k + 1]) / 2.0
            for op, fn in (('>=', lambda v, t: v >= t), ('<=', lambda v, t: v <= t), ('>', lambda v, t: v > t), ('<', lambda v, t: v < t)):
                first = next((j for j in range(1, len(series)) if fn(series[j], thr)), None)
                margin = min(abs(v - thr) for v in series)
                if first == k + 1 and margin > 1e-3 * span:
                    chosen = (op, thr)
                    break
            if chosen:
                break
        if chosen is None:
            return s, ('threshold-placement', 'none', '')
        s['stop'] = [sensor, idx, chosen[0], [chosen[1], unit]]
    return s, None


def differ(base, var):
    """First difference between two ('ok', obs, snap) results."""
    ob, ov = base[1], var[1]
    if len(ob['time']) != len(ov['time']):
        return ('time-axis/length', {'base': len(ob['time']), 'variant': len(ov['time'])})
    for k, (a, b) in enumerate(zip(ob['time'], ov['time'])):
        if not si.close(a, b, 1e-8, 1e-12):
            return ('time-axis/value', {'k': k, 'base': a, 'variant': b})
    for i, (ea, eb) in enumerate(zip(ob['el'], ov['el'])):
        if set(ea) != set(eb):
            return ('variables', {'i': i, 'base': sorted(ea), 'variant': sorted(eb)})
        for v in ea:
            sa, sb = ea[v], eb[v]
            if len(sa) != len(sb):
                return (f'history-length/{v}', {'i': i, 'base': len(sa), 'variant': len(sb)})
            scale = max([abs(x) for x in sa if x is not None] + [0.0])
            for k, (a, b) in enumerate(zip(sa, sb)):
                if a is None or b is None:
                    if a is not b:
                        return (f'history/{v}', {'i': i, 'k': k, 'base': a, 'variant': b})
                    continue
                if not si.close(a, b, 1e-8, scale * 1e-7 + 1e-300):
                    return (f'history/{v}', {'i': i, 'k': k, 'base': a, 'variant': b})
    sa, sb = base[2], var[2]
    if set(sa) != set(sb):
        return ('snapshot/cells', {})
    for key in sa:
        a, b = sa[key], sb[key]
        if math.isnan(a) and math.isnan(b):
            continue
        if not si.close(a, b, 1e-8, 1e-9):
            return ('snapshot/value', {'cell': list(key), 'base': a, 'variant': b})
    return None


def check_variant(acc, name, base_s, base_res, devs, inplace=False):
    """devs: list of (path, kind, unit)."""
    s = copy.deepcopy(base_s)
    for path, kind, unit in devs:
        reexpress(s, path, kind, unit, inplace)
    case = {'kind': 'variant', 'model': name, 'devs': [[list(p), k, u] for p, k, u in devs], 'inplace': inplace}
    res = execute(s)
    names = '+'.join(sorted(slot_key(base_s, p) for p, _, _ in devs)) + ('/converted-in-place' if inplace else '')
    if len(devs) == 2 and (res[0] != 'ok' or differ(base_res, res) is not None):
        # attribute to a single re-expressed quantity when that alone reproduces the same kind of failure
        sig2 = (res[0], res[1]) if res[0] != 'ok' else ('ok', differ(base_res, res)[0])
        for d1 in devs:
            s1 = copy.deepcopy(base_s)
            reexpress(s1, *d1)
            r1 = execute(s1)
            sig1 = (r1[0], r1[1]) if r1[0] != 'ok' else ('ok', (differ(base_res, r1) or [None])[0])
            if sig1 == sig2:
                names = slot_key(base_s, d1[0])
                break
    acc.executions += 1
    acc.transitions += 1
    acc.nstates += 1
    if res[0] != 'ok':
        acc.violation(f'C07/{res[0]}-fails/{res[1]}/{names}', 're-expressing an input never changes whether construction and simulation succeed', case,
                      {'phase': res[0], 'exception': res[1], 'message': res[2], 'units': [u for _, _, u in devs]})
        acc.outcomes[('failed', name)] += 1
        return
    d = differ(base_res, res)
    acc.outcomes[('equal' if d is None else 'differs', name, '+'.join(sorted(k for _, k, _ in devs)), 'in-place' if inplace else 'new-object')] += 1
    if d is not None:
        acc.violation(f'C07/{d[0]}/{names}', 're-expressing an input changes no physical output beyond rounding', case,
                      dict(d[1], units=[u for _, _, u in devs]))


def live_slots(s):
    """(element index, attribute, kind, current unit) of every quantity an element of the built model hands out."""
    m = sim.Model(dict({'elements': s['elements'], 'links': s['links'], 'init': s['init'], 'load_unit': s['load_unit']}, load=['const', 0.0]))
    out = []
    for i, e in enumerate(m.elements):
        for attr, kind in LIVE_ATTRS.items():
            q = getattr(e, attr, None)
            if q is not None and hasattr(q, 'unit'):
                out.append((i, attr, kind, q.unit))
    return out


def check_live(acc, name, base_s, base_res, i, attr, kind, unit):
    """History on live objects: build, convert one handed-out quantity in place, simulate; then build and simulate the
    untouched base scenario again in the same process.  Both must reproduce the base results."""
    case = {'kind': 'live', 'model': name, 'element': i, 'attr': attr, 'unit': unit}
    for phase, res in (('converted-model', execute(copy.deepcopy(base_s), live=(i, attr, unit))),
                       ('fresh-model-afterwards', execute(copy.deepcopy(base_s)))):
        acc.executions += 1
        acc.transitions += 1
        if res[0] != 'ok':
            acc.violation(f'C07/live/{phase}/{res[0]}-fails/{res[1]}/{attr}', 're-expressing an input never changes whether construction and simulation succeed',
                          case, {'phase': res[0], 'exception': res[1], 'message': res[2]})
            acc.outcomes[('failed', name)] += 1
            return
        d = differ(base_res, res)
        acc.outcomes[('equal' if d is None else 'differs', name, kind, 'live-attribute-in-place/' + phase)] += 1
        if d is not None:
            acc.violation(f'C07/live/{phase}/{d[0]}/{attr}', 're-expressing an input changes no physical output beyond rounding', case, dict(d[1], unit=unit))
            return
    acc.nstates += 1


def check_callback(acc, name, base_s, base_res, arg, unit):
    """The load function converts one of the quantities it is handed in place, at every instant."""
    case = {'kind': 'callback', 'model': name, 'arg': arg, 'unit': unit}
    res = execute(copy.deepcopy(base_s), callback=(arg, unit))
    acc.executions += 1
    acc.transitions += 1
    if res[0] != 'ok':
        acc.violation(f'C07/load-function-reexpresses/{arg}/{res[0]}-fails/{res[1]}', 're-expressing an input never changes whether construction and simulation succeed',
                      case, {'phase': res[0], 'exception': res[1], 'message': res[2]})
        acc.outcomes[('failed', name)] += 1
        return
    d = differ(base_res, res)
    acc.outcomes[('equal' if d is None else 'differs', name, CALLBACK_ARGS[arg], 'load-function-argument-in-place')] += 1
    if d is not None:
        acc.violation(f'C07/load-function-reexpresses/{arg}/{d[0]}', 're-expressing an input changes no physical output beyond rounding', case, dict(d[1], unit=unit))
        return
    acc.nstates += 1


INTERACTING = [('m', 'm'), ('beta', 'beta'), ('alpha', 'alpha'), ('beta', 'alpha'), ('dt', 'T'), ('i0', 'imax'),
               ('start', 'duration'), ('dt', 'dt'), ('T', 'T'), ('target', 'brake'), ('theta', 'w'), ('dt', 'start'),
               ('limit', 'imax'), ('b', 'd'), ('m', 'd')]


def interacting(p1, p2):
    a, b = p1[-1], p2[-1]
    return (a, b) in INTERACTING or (b, a) in INTERACTING


def shards(tier):
    out = []
    for name in MODELS:
        out.append({'model': name, 'mode': 'single'})
        out.append({'model': name, 'mode': 'live'})
        P = 8 if tier == 'quick' else 32
        for p in range(P):
            out.append({'model': name, 'mode': 'pairs', 'part': [p, P]})
    return out


def run_shard(shard, tier):
    acc = Acc()
    name = shard['model']
    base_s, err = prepare(name)
    base_res = execute(base_s) if err is None else err
    if base_res[0] != 'ok':
        acc.violation(f'C07/base-run-fails/{name}', 'base scenario runs', {'kind': 'shard', 'shard': shard}, {'result': list(base_res)[:3]})
        return acc
    sl = slots(base_s)
    if shard['mode'] == 'single':
        acc.state(('base', name))
        for path, kind in sl:
            for u in alt_units(base_s, path, kind):
                check_variant(acc, name, base_s, base_res, [(path, kind, u)])
            if kind != 'Torque#unit':
                for u in alt_units(base_s, path, kind)[:2]:
                    check_variant(acc, name, base_s, base_res, [(path, kind, u)], inplace=True)
        acc.sample({'model': name, 'slots': [slot_name(base_s, p) for p, _ in sl], 'mode': 'one quantity re-expressed in every other unit'})
    elif shard['mode'] == 'live':
        for i, attr, kind, u0 in live_slots(base_s):
            alts = [u for u in si.UNITS[kind] if u != u0]
            for u in (alts if tier != 'quick' else alts[:2]):
                check_live(acc, name, base_s, base_res, i, attr, kind, u)
        for arg, kind in CALLBACK_ARGS.items():
            for u in si.UNITS[kind]:
                check_callback(acc, name, base_s, base_res, arg, u)
        acc.sample({'model': name, 'mode': 'a quantity handed out by a built element converted in place, then a fresh model; '
                                           'an argument of the load function converted in place at every instant'})
    else:
        p, P = shard['part']
        idx = 0
        for (p1, k1), (p2, k2) in itertools.combinations(sl, 2):
            if tier == 'quick' and not interacting(p1, p2):
                continue
            for u1 in alt_units(base_s, p1, k1):
                for u2 in alt_units(base_s, p2, k2):
                    idx += 1
                    if idx % P != p:
                        continue
                    if tier != 'quick' and not interacting(p1, p2) and (idx // P) % 7 != 0:
                        # non-interacting pairs: every 7th unit combination (all slot pairs still covered)
                        continue
                    check_variant(acc, name, base_s, base_res, [(p1, k1, u1), (p2, k2, u2)])
        acc.sample({'model': name, 'mode': 'two quantities re-expressed', 'pairs': 'interacting' if tier == 'quick' else 'all'})
    acc.cases += acc.executions
    return acc


def replay(case):
    acc = Acc()
    if case.get('kind') == 'variant':
        base_s, err = prepare(case['model'])
        base_res = execute(base_s)
        check_variant(acc, case['model'], base_s, base_res, [(tuple(p), k, u) for p, k, u in case['devs']], inplace=case.get('inplace', False))
        return acc.violations
    if case.get('kind') == 'callback':
        base_s, err = prepare(case['model'])
        base_res = execute(base_s)
        check_callback(acc, case['model'], base_s, base_res, case['arg'], case['unit'])
        return acc.violations
    if case.get('kind') == 'live':
        base_s, err = prepare(case['model'])
        base_res = execute(base_s)
        check_live(acc, case['model'], base_s, base_res, case['element'], case['attr'], LIVE_ATTRS[case['attr']], case['unit'])
        return acc.violations
    return run_shard(case['shard'], 'quick').violations
