"""C03  Equation of motion and time-step update of the output element."""
import copy
import itertools

from gmc import menu, sim, traj, si
from gmc.core import Acc

ID = 'C03'
RULE = ('grammar chains x environment sequences: the environment picks (duty proposal, load torque) at every '
        'instant through a scripted rule and a scripted load callback; full product to the depth on short chains, '
        'all sequences with <= b deviations from (duty 1, nominal load) over a longer horizon on all chains; plus '
        'single-unit deviations (all 8 inertia units, 4 time units for dt, position/speed units of the initial '
        'conditions); fresh and continued runs; every transition k -> k+1 is compared with the reference update '
        'computed from the recorded state at k; canon = bit pattern of (theta, w, a, T_motor, duty, instant) + chain')
ASSUMPTIONS = ['equivalent inertia by the documented reduction J := J*r_i + J_i',
               'a recorded speed of exactly 0 with acceleration 0 on a self-locking chain is accepted as a clamp (C13 judges it)',
               'comparisons at 1e-9 relative to the magnitudes entering the update']
EXPLANATION = 'exhaustive environment sequences (depth / deviation bounded) on the real solver; one-step conformance to the reference'

DUTIES = [1, 0.3, 0, -1, None]
LOADS = [0.3, 0.0, -1.2, 20.0]
DT = [0.125, 'sec']
HORIZON = 8


def bounds(tier):
    return {'full_product': 'depth 3 on 2-element chains' if tier == 'quick' else 'depth 4 on 2-element, depth 3 on 3-element chains',
            'deviation_bound': '2 on 2-element chains, 1 on the rest' if tier == 'quick' else '2 on chains <= 3 elements, 1 on 4- and 5-element chains',
            'deviation_horizon': HORIZON, 'chain_elements_max': 4 if tier == 'quick' else 5,
            'duty_alphabet': DUTIES, 'load_alphabet_x_stall': LOADS}


def shards(tier):
    nmax = 4 if tier == 'quick' else 5
    out = []
    for c in menu.chains(2, nmax):
        P = 16 if len(c) + 1 <= 2 or (tier != 'quick' and len(c) + 1 <= 3) else 1
        for p in range(P):
            out.append({'chain': c, 'mode': 'dev', 'part': [p, P]})
        if len(c) + 1 <= (2 if tier == 'quick' else 3):
            for p in range(16):
                out.append({'chain': c, 'mode': 'full', 'part': [p, 16]})
        out.append({'chain': c, 'mode': 'units'})
    return out


def deviations(n, alts, bound):
    """All assignments over n positions departing from the base (index 0) in <= bound positions."""
    yield tuple([0] * n)
    for b in range(1, bound + 1):
        for pos in itertools.combinations(range(n), b):
            for choice in itertools.product(range(1, alts), repeat=b):
                seq = [0] * n
                for p, c in zip(pos, choice):
                    seq[p] = c
                yield tuple(seq)


ENV = [(d, l) for d in DUTIES for l in LOADS]      # index 0 = (1, 0.3): the default answer


def check_case(acc, chain_l, locking, env_seq, split=None, units=None, init=None, dt2=1.0, frac=None, stopped=False):
    """env_seq: list of indices into ENV, one per instant."""
    chain_l = [tuple(x) for x in chain_l]
    spec = menu.assign(chain_l, motor=menu.MOTOR_CUR, locking=locking,
                       init=init or {'theta': [0.1, 'rad'], 'w': [0.5, 'rad/s']})
    units = units or {}
    dt = list(DT)
    if 'dt' in units:
        dt = [si.convert(DT[0], 'TimeInterval', 'sec', units['dt']), units['dt']]
    if 'J' in units:
        for e in spec['elements']:
            e['J'] = [si.convert(e['J'][0], 'InertiaMoment', e['J'][1], units['J']), units['J']]
    if 'theta' in units:
        spec['init']['theta'] = [si.convert(spec['init']['theta'][0], 'AngularPosition', 'rad', units['theta']), units['theta']]
    if 'w' in units:
        spec['init']['w'] = [si.convert(spec['init']['w'][0], 'AngularSpeed', 'rad/s', units['w']), units['w']]
    if 'scale' in units:
        # micro / mega mechanism: every torque and inertia times units['scale'] (same motion), written in kNm / kgm^2 or mNmm / gmm^2
        big = units['scale'] > 1
        spec = menu.scaled(spec, units['scale'], 'mNmm' if big else 'kNm', 'gmm^2' if big else 'kgm^2')
    stall = menu.stall_at_output(spec)
    duty = [ENV[i][0] for i in env_seq]
    spec['load'] = ['script', [ENV[i][1] * stall for i in env_seq]]
    n = len(env_seq)
    case = {'kind': 'case', 'chain': chain_l, 'locking': locking, 'env': list(env_seq), 'split': split,
            'units': units, 'dt2': dt2, 'frac': frac, 'stopped': stopped}
    if split:
        # the continuation may use another (physical) time step
        dtb = [dt[0] * dt2, dt[1]]
        ops = [('run', dt, [dt[0] * (split - 1), dt[1]], duty, None),
               ('run', dtb, [dtb[0] * (n - split), dtb[1]], duty, None)]
    elif stopped:
        # a run ended early by a stop condition (motor speed crossing the value between instants 3 and 4 of the unstopped
        # run), then continued to the end of the script: the update rule also holds across the hand-over
        base, binfo = sim.run_schedule(copy.deepcopy(spec), [('run', dt, [dt[0] * (n - 1), dt[1]], duty, None)])
        if binfo['error']:
            return
        w = base.series(0, 'angular speed')
        if len(w) < 6 or w[3] == w[4]:
            return
        thr = [(w[3] + w[4]) / 2.0, 'rad/s']
        op = '>=' if w[4] > w[3] else '<='
        first = next((k for k in range(1, len(w)) if (w[k] >= thr[0] if op == '>=' else w[k] <= thr[0])), None)
        if first is None or first >= n - 2:
            return
        ops = [('run', dt, [dt[0] * (n - 1), dt[1]], duty, ['tachometer', 0, op, thr]),
               ('run', dt, [dt[0] * (n - 1 - first), dt[1]], duty, None)]
    elif frac is not None:
        # the requested duration is not a multiple of the step: round(T/dt) steps are taken, each of them a full dt
        ops = [('run', dt, [dt[0] * (n - 2 + frac), dt[1]], duty, None)]
    else:
        ops = [('run', dt, [dt[0] * (n - 1), dt[1]], duty, None)]
    m, info = sim.run_schedule(spec, ops)
    acc.executions += 1
    if info['error']:
        acc.violation(f'C03/run-error/{info["error"][0]}', 'simulation runs', case, {'error': info['error']})
        return
    chain = sim.chain_ref(spec)
    obs = m.observe()
    name = menu.chain_name(chain_l)
    if len(obs['time']) != n:
        # the number of instants is C11's business: judge the transitions that exist
        acc.outcomes['instant-count-differs-from-request'] += 1
        n = min(n, len(obs['time']))

    def emit(sfx, clause, k, detail):
        dd = dict(detail)
        dd.update(instant=k, chain=name)
        acc.violation(f'C03/{sfx}' + (f'/unit-{"+".join(sorted(units))}' if units else '') + ('/continued-other-dt' if split and dt2 != 1.0 else ''), clause, case, dd)

    acc.transitions += traj.motion(obs, chain, emit, info['dts'], info['starts'])
    last, mot = obs['el'][-1], obs['el'][0]
    for k in range(n):
        acc.state((name, locking, k, last['angular position'][k], last['angular speed'][k],
                   last['angular acceleration'][k], mot['torque'][k], mot['pwm'][k]))
    clamped = chain.self_locking and any(last['angular speed'][k] == 0 for k in range(1, n))
    acc.outcomes[('clamped' if clamped else 'free', traj.sgn(last['angular speed'][-1]))] += 1
    acc.cases += 1


def run_shard(shard, tier):
    acc = Acc()
    chain_l = [tuple(x) for x in shard['chain']]
    nel = len(chain_l) + 1
    variants = [False, True] if menu.has_worm_drive(chain_l) else [False]
    first = True
    p, P = shard.get('part', [0, 1])
    for locking in variants:
        if shard['mode'] == 'full':
            d = 3 if (tier == 'quick' or nel > 2) else 4
            seqs = itertools.product(range(len(ENV)), repeat=d)
            for idx, s in enumerate(seqs):
                if idx % P != p:
                    continue
                check_case(acc, chain_l, locking, s)
                if first:
                    acc.sample({'chain': menu.chain_name(chain_l), 'mode': 'full product', 'env_sequence': [ENV[i] for i in s]})
                    first = False
        elif shard['mode'] == 'dev':
            if tier == 'quick':
                b = 2 if nel <= 2 else 1
            else:
                b = 2 if nel <= 3 else 1
            for idx, s in enumerate(deviations(HORIZON, len(ENV), b)):
                if idx % P != p:
                    continue
                check_case(acc, chain_l, locking, s)
                if sum(1 for x in s if x) == b and s[1] and first:
                    acc.sample({'chain': menu.chain_name(chain_l), 'mode': f'<= {b} deviations', 'env_sequence': [ENV[i] for i in s]})
                    first = False
            # continued runs: every split point of a fixed mixed sequence
            mixed = (0, 5, 0, 14, 2, 0, 9, 0)
            for split in range(3, HORIZON - 1):
                if p == 0:
                    for f in (1.0, 0.5, 2.0, 0.25):
                        check_case(acc, chain_l, locking, mixed, split=split, dt2=f)
        else:
            mixed = (0, 5, 0, 14, 2, 0, 9, 0)
            for u in si.UNITS['InertiaMoment']:
                check_case(acc, chain_l, locking, mixed, units={'J': u})
            for u in si.UNITS['TimeInterval']:
                check_case(acc, chain_l, locking, mixed, units={'dt': u})
                check_case(acc, chain_l, locking, mixed, units={'dt': u}, split=4)
            for u in si.UNITS['AngularPosition']:
                check_case(acc, chain_l, locking, mixed, units={'theta': u})
            for u in si.UNITS['AngularSpeed']:
                check_case(acc, chain_l, locking, mixed, units={'w': u})
            for fr in (0.6, 0.4, 0.5000001):
                check_case(acc, chain_l, locking, mixed, frac=fr)
            check_case(acc, chain_l, locking, mixed, stopped=True)
            check_case(acc, chain_l, locking, (0, 0, 0, 0, 0, 0, 0, 0), stopped=True)
            for sc in (1e-9, 1e6):
                check_case(acc, chain_l, locking, mixed, units={'scale': sc})
                check_case(acc, chain_l, locking, mixed, units={'scale': sc}, split=4)
            if first:
                acc.sample({'chain': menu.chain_name(chain_l), 'mode': 'unit deviations', 'env_sequence': [ENV[i] for i in mixed]})
                first = False
    return acc


def replay(case):
    acc = Acc()
    if case.get('kind') == 'case':
        check_case(acc, case['chain'], case['locking'], tuple(case['env']), case.get('split'), case.get('units'), dt2=case.get('dt2', 1.0), frac=case.get('frac'), stopped=case.get('stopped', False))
        return acc.violations
    return run_shard(case['shard'], 'quick').violations
