"""C16  A stop condition ends the run at the first instant it holds."""
import math
import operator

from gmc import menu, sim, si
from gmc.core import Acc

ID = 'C16'
RULE = ('models x sensors {encoder, tachometer on every element; amperometer} x 5 operators x thresholds derived from '
        'the same model\'s unstopped run: below the minimum, above the maximum, midway between samples k and k+1 for '
        'every k, bit-equal to sample k (same unit) for every k; mid-sample thresholds re-expressed in every unit of '
        'their kind; x (dt, T); oracle = plain-float first occurrence on the unstopped series; canon = (model, sensor, '
        'element, operator, threshold bits, unit); non-trivial = the run stops strictly inside the horizon')
ASSUMPTIONS = ['an unstopped run of the same model gives the series the stop condition is judged on (the solver is deterministic: checked by comparing the common prefix)',
               'thresholds are placed midway between samples or bit-equal to a sample in the sample\'s own unit, so no comparison is within rounding of its threshold; re-expressed thresholds keep >= 1e-6 relative margin']
EXPLANATION = 'exhaustive thresholds at and between all samples, all operators and sensors; differential oracle against the unstopped run'

OPS = {'>': operator.gt, '>=': operator.ge, '==': operator.eq, '<': operator.lt, '<=': operator.le}
# the third run asks for a duration that is NOT a multiple of dt (T/dt = 10.4 -> round() = 10 steps): a stopped run must still
# record nothing after the stopping instant (seed C16-10: a shorter 'closing step' appended after the step loop, also after a break)
RUNS = [([0.125, 'sec'], [2.0, 'sec']), ([0.5, 'sec'], [3000.0, 'ms']), ([0.125, 'sec'], [1.3, 'sec'])]


def bounds(tier):
    return {'models': MODELS if tier != 'quick' else MODELS[:6], 'runs': RUNS, 'operators': list(OPS)}


MODELS = ['osc', 'locking', 'locking-rpm', 'geared', 'held-off', 'lift-off', 'worm']
PRELUDE_MODELS = ('held-off', 'lift-off')


def model_spec(name):
    if name == 'osc':
        # position-dependent load: speed rises then falls, position non-monotone series for tachometer
        spec = menu.assign([('J', 'S')], motor=menu.MOTOR_CUR, init={'theta': [0.0, 'rad'], 'w': [0.0, 'rad/s']})
        st = menu.stall_at_output(spec)
        spec['load'] = ['mix', 0.1 * st, 0.0, 0.02 * st, 0.3 * st]
    elif name == 'geared':
        spec = menu.assign([('J', 'F'), ('J', 'S'), ('G', 'S')], motor=menu.MOTOR_CUR,
                           init={'theta': [10.0, 'deg'], 'w': [-30.0, 'rpm']})
        st = menu.stall_at_output(spec)
        spec['load'] = ['switch', 0.6 * st, 0.9]
    elif name == 'locking-rpm':
        # as 'locking', with the initial conditions written in deg / rpm: once held, speeds become 0 rad/s objects
        spec = menu.assign([('J', 'Wg'), ('W', 'Ww')], motor=menu.MOTOR_CUR, locking=True,
                           init={'theta': [0.0, 'deg'], 'w': [0.0, 'rpm']})
        st = menu.stall_at_output(spec)
        spec['load'] = ['switch', 1.9 * st, 0.8]
    elif name in PRELUDE_MODELS:
        # self-locking chain under a constant load; the motor is switched off by hand (no control): before the run
        # ('held-off': everything frozen from the start) or between a lifting run and the judged continuation ('lift-off')
        spec = menu.assign([('J', 'Wg'), ('W', 'Ww')], motor=menu.MOTOR_CUR, locking=True,
                           init={'theta': [0.3, 'rad'], 'w': [0.0, 'rad/s']})
        st = menu.stall_at_output(spec)
        spec['load'] = ['const', 0.5 * st]
    elif name == 'locking':
        # self-locking chain with a load that rises above stall: speeds are clamped mid-run
        spec = menu.assign([('J', 'Wg'), ('W', 'Ww')], motor=menu.MOTOR_CUR, locking=True,
                           init={'theta': [0.0, 'rad'], 'w': [0.0, 'rad/s']})
        st = menu.stall_at_output(spec)
        spec['load'] = ['time', 1.6 * st]
    else:
        spec = menu.assign([('J', 'Wg'), ('W', 'Ww')], motor=menu.MOTOR_CUR, locking=False,
                           init={'theta': [0.0, 'rad'], 'w': [0.0, 'rad/s']})
        st = menu.stall_at_output(spec)
        spec['load'] = ['time', 0.5 * st]
    return spec


def schedule(mname, ri, stop):
    """(operations, number of instants recorded before the run that carries the stop condition starts computing)"""
    dt, T = RUNS[ri]
    if mname == 'held-off':
        return [('setpwm', 0), ('run', dt, T, None, stop)], 0
    if mname == 'lift-off':
        pre = 4
        T1 = [dt[0] * pre, dt[1]]
        T2 = [si.convert(si.si(T[0], 'TimeInterval', T[1]), 'TimeInterval', 'sec', dt[1]) - T1[0], dt[1]]
        return [('run', dt, T1, None, None), ('setpwm', 0), ('run', dt, T2, None, stop)], pre
    return [('run', dt, T, None, stop)], 0


def shards(tier):
    out = []
    models = MODELS if tier != 'quick' else MODELS[:6]
    for mname in models:
        spec = model_spec(mname)
        n = len(spec['elements'])
        for ri in range(len(RUNS)):
            for i in range(n):
                out.append({'model': mname, 'run': ri, 'sensor': 'encoder', 'idx': i})
                out.append({'model': mname, 'run': ri, 'sensor': 'tachometer', 'idx': i})
            out.append({'model': mname, 'run': ri, 'sensor': 'amperometer', 'idx': 0})
    out += [{'mode': 'long', 'sensor': 'encoder', 'idx': 1}, {'mode': 'long', 'sensor': 'tachometer', 'idx': 0},
            {'mode': 'long', 'sensor': 'amperometer', 'idx': 0}]
    return out


def raw_series(m, sensor, idx):
    var = sim.SENSOR_KIND[sensor][1]
    return m.elements[idx].time_variables[var]


def check_continued(acc, mname, ri, sensor, idx, op, thr, base_vals, base_obs, tag, pre):
    """The stop condition is given only to a CONTINUATION: first `pre` steps without it, then the rest with it."""
    spec = model_spec(mname)
    dt, T = RUNS[ri]
    n = len(base_vals) - 1
    case = {'kind': 'thr-cont', 'model': mname, 'run': ri, 'sensor': sensor, 'idx': idx, 'op': op, 'thr': thr, 'tag': tag, 'pre': pre}
    T1 = [dt[0] * pre, dt[1]]
    T2 = [si.convert(si.si(T[0], 'TimeInterval', T[1]), 'TimeInterval', 'sec', dt[1]) - T1[0], dt[1]]
    m, info = sim.run_schedule(spec, [('run', dt, T1, None, None), ('run', dt, T2, None, [sensor, idx, op, thr])])
    acc.executions += 1
    if info['error']:
        acc.violation(f'C16/continued/run-error/{info["error"][0]}', 'run succeeds', case, {'error': info['error']})
        return
    hold = [OPS[op](v, thr[0]) for v in base_vals]
    kstar = next((k for k in range(pre + 1, n + 1) if hold[k]), None)
    expected = n + 1 if kstar is None else kstar + 1
    got = len(m.pt.time)
    acc.transitions += got
    if got != expected:
        acc.violation(f'C16/continued/stop-instant/{"late" if got > expected else "early"}/{sensor}/{op}',
                      'a stop condition given to a continued run ends it at the first computed instant of that run at which it holds', case,
                      {'got_instants': got, 'expected_instants': expected, 'k_star': kstar, 'continuation_starts_after': pre})
        return
    obs = m.observe()
    if obs['time'] != base_obs['time'][:got] or any(ser != base_obs['el'][i][var][:got] for i, e in enumerate(obs['el']) for var, ser in e.items()):
        acc.violation(f'C16/continued/prefix-differs/{sensor}/{op}', 'stopped continued run equals the unstopped run on its prefix', case, {})
        return
    acc.outcomes['continued-' + ('stopped' if kstar is not None else 'never')] += 1
    acc.cases += 1


def check_reused(acc, mname, ri, sensor, idx, op, thr, base_vals, base_obs, tag):
    """ONE StopCondition object used for a run, then again after reset (same solver) and for a continuation."""
    spec = model_spec(mname)
    dt, T = RUNS[ri]
    case = {'kind': 'thr-reuse', 'model': mname, 'run': ri, 'sensor': sensor, 'idx': idx, 'op': op, 'thr': thr, 'tag': tag}
    m = sim.Model(spec)
    stop = sim.make_stop(m, [sensor, idx, op, thr])
    full = len(base_vals)
    hold = [OPS[op](v, thr[0]) for v in base_vals]
    kstar = next((k for k in range(1, full) if hold[k]), None)
    expected = full if kstar is None else kstar + 1
    try:
        m.run(dt, T, stop=stop)
        n1 = len(m.pt.time)
        m.pt.reset()
        m.apply_init()
        m.run(dt, T, stop=stop)
        n2 = len(m.pt.time)
    except Exception as ex:
        acc.violation(f'C16/reused/run-error/{type(ex).__name__}', 'runs succeed', case, {'exc': repr(ex)[:200]})
        return
    acc.executions += 2
    acc.transitions += n1 + n2
    if n1 != expected or n2 != expected:
        acc.violation(f'C16/reused/stop-instant/{sensor}/{op}', 'a stop condition object used for a second run (after reset) ends it at the first instant it holds', case,
                      {'first_run_instants': n1, 'second_run_instants': n2, 'expected': expected})
        return
    # continuation with the same object: first hit after the continuation starts
    if kstar is not None and kstar + 2 < full:
        try:
            m.run(dt, [dt[0] * (full - 1 - kstar), dt[1]], stop=stop)
        except Exception as ex:
            acc.violation(f'C16/reused/run-error/{type(ex).__name__}', 'continuation succeeds', case, {'exc': repr(ex)[:200]})
            return
        k2 = next((k for k in range(kstar + 1, full) if hold[k]), None)
        exp3 = full if k2 is None else k2 + 1
        n3 = len(m.pt.time)
        acc.executions += 1
        if n3 != exp3:
            acc.violation(f'C16/reused/continuation-stop-instant/{sensor}/{op}', 'the same stop condition object given to a continuation ends it at the first instant of that run at which it holds', case,
                          {'instants': n3, 'expected': exp3, 'first_stop_at': kstar})
            return
    acc.outcomes['reused-ok'] += 1
    acc.cases += 1


def check_threshold(acc, mname, ri, sensor, idx, op, thr, base_vals_in_thr_unit, base_obs, tag, numpy_value=False):
    """thr = [value, unit]; base_vals_in_thr_unit: unstopped series expressed in thr's unit (plain floats).
    numpy_value: the threshold quantity is built from a numpy.float64 (a float subclass users get from any numpy computation)."""
    spec = model_spec(mname)
    dt, T = RUNS[ri]
    case = {'kind': 'thr', 'model': mname, 'run': ri, 'sensor': sensor, 'idx': idx, 'op': op, 'thr': thr, 'tag': tag, 'numpy': numpy_value}
    thr_arg = thr
    if numpy_value:
        import numpy
        thr_arg = [numpy.float64(thr[0]), thr[1]]
        tag = tag + '/numpy-threshold'
        if sensor == 'encoder' and thr[0] >= 0:
            # ... and, for an encoder, handed over as an Angle (a sub-kind of AngularPosition)
            thr_arg = [numpy.float64(thr[0]), thr[1], 'Angle']
            tag = tag + '+Angle'
    ops, pre = schedule(mname, ri, [sensor, idx, op, thr_arg])
    m, info = sim.run_schedule(spec, ops)
    acc.executions += 1
    if info['error']:
        acc.violation(f'C16/run-error/{info["error"][0]}', 'run succeeds', case, {'error': info['error']})
        return
    full = len(base_vals_in_thr_unit)
    hold = [OPS[op](v, thr[0]) for v in base_vals_in_thr_unit]
    kstar = next((k for k in range(pre + 1, full) if hold[k]), None)
    expected = full if kstar is None else kstar + 1
    got = len(m.pt.time)
    acc.transitions += got
    site = f'{sensor}/{op}'
    if got != expected:
        when = 'late' if got > expected else 'early'
        acc.violation(f'C16/stop-instant/{when}/{site}/{tag}', 'run ends at the first computed instant (after the initial one) at which the comparison holds', case,
                      {'got_instants': got, 'expected_instants': expected, 'k_star': kstar, 'full': full})
        acc.outcomes['mismatch'] += 1
        return
    # prefix equality with the unstopped run
    obs = m.observe()
    for i, e in enumerate(obs['el']):
        for var, ser in e.items():
            if ser != base_obs['el'][i][var][:got]:
                acc.violation(f'C16/prefix-differs/{site}', 'stopped run equals the unstopped run on its prefix', case,
                              {'i': i, 'var': var})
                return
    if obs['time'] != base_obs['time'][:got]:
        acc.violation(f'C16/prefix-differs/time/{site}', 'time axis is a prefix', case, {})
        return
    # comparison false at 1..k*-1, true at k* on the stopped run's own recorded series
    var = sim.SENSOR_KIND[sensor][1]
    kind = sim.SENSOR_KIND[sensor][0]
    own = [si.convert(q.value, kind, q.unit, thr[1]) if q.unit != thr[1] else q.value
           for q in m.elements[idx].time_variables[var]]
    acc.outcomes['stopped-inside' if (kstar is not None and kstar < full - 1) else
                 ('stopped-at-end' if kstar is not None else 'never')] += 1
    acc.cases += 1


LONG = ([0.0005, 'sec'], [1.25, 'sec'])           # 2500 steps


def check_long(acc, sensor, idx, tier):
    """Runs of thousands of steps: the stop instant far from the start, in the middle and near the end."""
    spec = model_spec('osc')
    dt, T = LONG
    base, info = sim.run_schedule(spec, [('run', dt, T, None, None)])
    if info['error']:
        acc.violation('C16/long-run/base-run-error', 'unstopped run succeeds', {'kind': 'long', 'sensor': sensor, 'idx': idx}, {'error': info['error']})
        return
    base_t = base.times()
    kind = sim.SENSOR_KIND[sensor][0]
    series = raw_series(base, sensor, idx)
    unit0 = series[0].unit
    vals = [si.convert(q.value, kind, q.unit, unit0) if q.unit != unit0 else q.value for q in series]
    full = len(vals)
    for k in ((300, 1200, 2300) if tier == 'quick' else (5, 300, 999, 1000, 1001, 1200, 1999, 2000, 2300, 2498)):
        if vals[k] == vals[k + 1]:
            continue
        thr = [(vals[k] + vals[k + 1]) / 2.0, unit0]
        for op in OPS:
            case = {'kind': 'long', 'sensor': sensor, 'idx': idx, 'op': op, 'k': k}
            hold = [OPS[op](v, thr[0]) for v in vals]
            kstar = next((j for j in range(1, full) if hold[j]), None)
            expected = full if kstar is None else kstar + 1
            m, info = sim.run_schedule(spec, [('run', dt, T, None, [sensor, idx, op, thr])])
            acc.executions += 1
            if info['error']:
                acc.violation(f'C16/long-run/run-error/{info["error"][0]}', 'run succeeds', case, {'error': info['error']})
                continue
            got = len(m.pt.time)
            acc.transitions += got
            acc.nstates += 1
            if got != expected or m.times() != base_t[:got]:
                acc.violation(f'C16/long-run/stop-instant/{"late" if got > expected else "early" if got < expected else "axis"}/{sensor}/{op}',
                              'run ends at the first computed instant at which the comparison holds, nothing is recorded after it', case,
                              {'got_instants': got, 'expected_instants': expected, 'last_times': m.times()[-3:]})
            acc.outcomes[('long-run', 'stopped-inside' if kstar is not None and kstar < full - 1 else 'never-or-at-end')] += 1
    acc.sample({'mode': 'long run (2500 steps)', 'sensor': sensor, 'element': idx, 'dt_T': LONG})


def run_shard(shard, tier):
    acc = Acc()
    if shard.get('mode') == 'long':
        check_long(acc, shard['sensor'], shard['idx'], tier)
        acc.cases += acc.executions
        return acc
    mname, ri, sensor, idx = shard['model'], shard['run'], shard['sensor'], shard['idx']
    spec = model_spec(mname)
    dt, T = RUNS[ri]
    base, info = sim.run_schedule(spec, schedule(mname, ri, None)[0])
    if info['error']:
        acc.violation('C16/base-run-error', 'unstopped run succeeds', {'kind': 'shard', 'shard': shard}, {'error': info['error']})
        return acc
    base_obs = base.observe()
    kind = sim.SENSOR_KIND[sensor][0]
    series = raw_series(base, sensor, idx)
    unit0 = series[0].unit
    vals0 = [si.convert(q.value, kind, q.unit, unit0) if q.unit != unit0 else q.value for q in series]
    n = len(vals0)
    lo, hi = min(vals0), max(vals0)
    span = max(hi - lo, abs(hi), abs(lo), 1e-9)
    thresholds = [([lo - 0.5 * span, unit0], 'below-min'), ([hi + 0.5 * span, unit0], 'above-max')]
    for k in range(n - 1):
        a, b = vals0[k], vals0[k + 1]
        if a != b and abs(a - b) > 1e-6 * span:
            thresholds.append(([(a + b) / 2.0, unit0], 'mid'))
    for k in range(n):
        thresholds.append(([vals0[k], unit0], 'equal-sample'))
    first = True
    for thr, tag in thresholds:
        for op in OPS:
            check_threshold(acc, mname, ri, sensor, idx, op, thr, vals0, base_obs, tag)
            acc.nstates += 1
            if first:
                acc.sample({'model': mname, 'dt_T': RUNS[ri], 'sensor': sensor, 'element': idx, 'operator': op,
                            'threshold': thr, 'placement': tag})
                first = False
            if mname in PRELUDE_MODELS:
                continue
            if tag in ('mid', 'below-min', 'above-max') and op in ('>=', '<'):
                check_continued(acc, mname, ri, sensor, idx, op, thr, vals0, base_obs, tag, pre=3)
                acc.nstates += 1
            if tag == 'mid' and op in ('>', '<='):
                check_reused(acc, mname, ri, sensor, idx, op, thr, vals0, base_obs, tag)
                acc.nstates += 1
            if tag in ('mid', 'equal-sample') and op in ('>=', '<', '=='):
                check_threshold(acc, mname, ri, sensor, idx, op, thr, vals0, base_obs, tag, numpy_value=True)
                acc.nstates += 1
        if tag == 'mid':
            # the same physical threshold in every other unit of its kind
            for u in si.UNITS[kind]:
                if u == unit0:
                    continue
                thr_u = [si.convert(thr[0], kind, unit0, u), u]
                vals_u = [si.convert(v, kind, unit0, u) for v in vals0]
                # keep only thresholds whose margin to every sample is comfortably above rounding
                if min(abs(v - thr_u[0]) for v in vals_u) <= 1e-6 * max(abs(thr_u[0]), 1e-300) or \
                        min(abs(v - thr_u[0]) for v in vals_u) < 1e-9:
                    acc.ambiguous += 1
                    continue
                for op in ('>=', '<', '=='):
                    check_threshold(acc, mname, ri, sensor, idx, op, thr_u, vals_u, base_obs, 'mid-other-unit')
                    acc.nstates += 1
    return acc


def replay(case):
    acc = Acc()
    if case.get('kind') == 'long':
        check_long(acc, case['sensor'], case['idx'], 'quick')
        return acc.violations
    if case.get('kind') == 'thr-reuse':
        spec = model_spec(case['model'])
        dt, T = RUNS[case['run']]
        base, info = sim.run_schedule(spec, schedule(case['model'], case['run'], None)[0])
        kind = sim.SENSOR_KIND[case['sensor']][0]
        series = raw_series(base, case['sensor'], case['idx'])
        u = case['thr'][1]
        vals = [si.convert(q.value, kind, q.unit, u) if q.unit != u else q.value for q in series]
        check_reused(acc, case['model'], case['run'], case['sensor'], case['idx'], case['op'], case['thr'], vals, base.observe(), case['tag'])
        return acc.violations
    if case.get('kind') == 'thr-cont':
        spec = model_spec(case['model'])
        dt, T = RUNS[case['run']]
        base, info = sim.run_schedule(spec, schedule(case['model'], case['run'], None)[0])
        kind = sim.SENSOR_KIND[case['sensor']][0]
        series = raw_series(base, case['sensor'], case['idx'])
        u = case['thr'][1]
        vals = [si.convert(q.value, kind, q.unit, u) if q.unit != u else q.value for q in series]
        check_continued(acc, case['model'], case['run'], case['sensor'], case['idx'], case['op'], case['thr'], vals, base.observe(), case['tag'], case['pre'])
        return acc.violations
    if case.get('kind') == 'thr':
        spec = model_spec(case['model'])
        dt, T = RUNS[case['run']]
        base, info = sim.run_schedule(spec, schedule(case['model'], case['run'], None)[0])
        kind = sim.SENSOR_KIND[case['sensor']][0]
        series = raw_series(base, case['sensor'], case['idx'])
        u = case['thr'][1]
        vals = [si.convert(q.value, kind, q.unit, u) if q.unit != u else q.value for q in series]
        check_threshold(acc, case['model'], case['run'], case['sensor'], case['idx'], case['op'], case['thr'],
                        vals, base.observe(), case['tag'].replace('/numpy-threshold', ''), numpy_value=case.get('numpy', False))
        return acc.violations
    return run_shard(case['shard'], 'quick').violations
