"""C12  Continuation and reset/rerun reproduce the same history."""
import itertools

from gearpy.motor_control import PWMControl
from gearpy.motor_control.rules import ConstantPWM, ReachAngularPosition, StartLimitCurrent, StartProportionalToAngularPosition
from gearpy.sensors import AbsoluteRotaryEncoder, Tachometer, Timer
from gearpy.units import Angle, AngularPosition, Current, Time, TimeInterval

from gmc import menu, sim, si
from gmc.core import Acc

ID = 'C12'
RULE = ('10 models (plain; self-locking ones ending held / at rest / with declared duty 0; controlled by every rule kind in turn; time-dependent load) x ALL '
        'schedules of up to 3 runs with n in the bound (every split point) x unit of dt and of T in later runs; '
        'differential oracle: [run n1, run n2(, run n3)] == [run n1+n2(+n3)] and [S, reset, (new solver,) S] second '
        'execution bit-equal to the first; canon = (model, schedule, units); non-trivial = a schedule with >= 2 runs')
ASSUMPTIONS = ['"re-applying the initial conditions" = setting position and speed of the last element again (what the documentation examples do)',
               'continuation vs single run compared at 1e-8 relative, reset/rerun bit-exactly',
               'duty scripts are indexed by absolute instant number, so both schedules see the same control']
EXPLANATION = 'exhaustive schedules (split points, units) with a differential oracle between two executions of the real code'

DT = 0.125
MODELS = ['plain', 'locking', 'overload', 'locking-d0', 'declared-duty-0', 'rest-in-dead-zone', 'controlled', 'soft-start', 'limit-start', 'timeload']


def bounds(tier):
    return {'n_range': [2, 5] if tier == 'quick' else [2, 7], 'runs_max': 3,
            'unit_combos_second_run': 4 if tier == 'quick' else 16, 'models': MODELS,
            'dt': [DT, 0.1]}


def model_spec(name):
    if name == 'plain':
        spec = menu.assign([('J', 'S')], motor=menu.MOTOR_CUR, init={'theta': [0.0, 'rad'], 'w': [0.0, 'rad/s']})
        spec['load'] = ['const', 0.3 * menu.stall_at_output(spec)]
        duty = None
    elif name == 'locking':
        spec = menu.assign([('J', 'Wg'), ('W', 'Ww')], motor=menu.MOTOR_CUR, locking=True,
                           init={'theta': [0.0, 'rad'], 'w': [0.0, 'rad/s']})
        st = menu.stall_at_output(spec)
        # overload rising in time: the chain ends held; duty script with a zero and a sign change
        spec['load'] = ['time', 4.0 * st]
        duty = [1, 1, 0.5, 0, 0, 1, 1, -1, -1, 1, 1, 0.2, 1, 1, 1, 1]
    elif name == 'overload':
        spec = menu.assign([('J', 'Wg'), ('W', 'Ww')], motor=menu.MOTOR_CUR, locking=True,
                           init={'theta': [0.0, 'rad'], 'w': [0.0, 'rad/s']})
        spec['load'] = ['const', 20.0 * menu.stall_at_output(spec)]
        duty = None
    elif name == 'locking-d0':
        spec = menu.assign([('J', 'Wg'), ('W', 'Ww'), ('J', 'S'), ('G', 'S')], motor=menu.MOTOR_PLAIN, locking=True,
                           init={'theta': [0.0, 'rad'], 'w': [0.5, 'rad/s']})
        spec['load'] = ['const', 0.5 * menu.stall_at_output(spec)]
        duty = [0, 0.6, 1, 1, -1, 1, 0, 1, 1, 1, 1, 1, 1, 1, 1, 1]
    elif name == 'rest-in-dead-zone':
        # self-locking chain, no load, duty inside the motor's dead zone: at rest with zero torque but NOT held; it starts later
        spec = menu.assign([('J', 'Wg'), ('W', 'Ww')], motor=menu.MOTOR_CUR, locking=True,
                           init={'theta': [0.0, 'rad'], 'w': [0.0, 'rad/s']})
        spec['load'] = ['const', 0.0]
        duty = [0.03, 0.03, 0.03, 0.03, 0.03, 1, 1, 1, 0.03, 0.03, 1, 1, 1, 1, 1, 1]
    elif name == 'declared-duty-0':
        # the user declares duty cycle 0 on the motor before the first run; the control commands 0.8 from instant 0 on
        spec = menu.assign([('J', 'Wg'), ('W', 'Ww')], motor=menu.MOTOR_CUR, locking=True,
                           init={'theta': [0.0, 'rad'], 'w': [0.0, 'rad/s']})
        spec['load'] = ['const', 0.3 * menu.stall_at_output(spec)]
        spec['declared_pwm'] = 0
        duty = [0.8, 0.8, 1, 1, 0.5, 1, 1, 1, 1, 1, 1, 1, 1, 1, 1, 1]
    elif name in ('soft-start', 'limit-start'):
        # all rule kinds taking turns: a start rule whose window closes after a few instants, a timer window, a braking rule;
        # ONE control object (and its rule and sensor objects) serves every run of a schedule, reset included
        spec = menu.assign([('J', 'S'), ('G', 'S')], motor=menu.MOTOR_CUR, init={'theta': [0.0, 'rad'], 'w': [0.0, 'rad/s']})
        spec['load'] = ['const', 0.2 * menu.stall_at_output(spec)]
        duty = 'rules:' + name
    elif name == 'controlled':
        spec = menu.assign([('J', 'S'), ('G', 'S')], motor=menu.MOTOR_CUR, init={'theta': [0.0, 'rad'], 'w': [0.0, 'rad/s']})
        spec['load'] = ['const', 0.2 * menu.stall_at_output(spec)]
        duty = 'rules'
    else:
        spec = menu.assign([('J', 'F'), ('J', 'S')], motor=menu.MOTOR_PLAIN, init={'theta': [0.3, 'rad'], 'w': [1.0, 'rad/s']})
        st = menu.stall_at_output(spec)
        spec['load'] = ['mix', 0.1 * st, 0.0, 0.0, 0.8 * st]
        duty = None
    return spec, duty


def install_rules(m, dtv, kind='rules'):
    """Timer window edges sit mid-step; position rule far enough to trigger late."""
    pt = m.pt
    ctl = PWMControl(powertrain=pt)
    if kind != 'rules':
        enc = AbsoluteRotaryEncoder(target=m.elements[-1])
        if kind == 'rules:soft-start':
            ctl.add_rule(StartProportionalToAngularPosition(encoder=enc, powertrain=pt, target_angular_position=AngularPosition(0.3, 'rad'),
                                                            pwm_min_multiplier=2))
        else:
            ctl.add_rule(StartLimitCurrent(encoder=enc, tachometer=Tachometer(m.elements[0]), motor=m.elements[0],
                                           target_angular_position=AngularPosition(0.4, 'rad'), limit_electric_current=Current(1.0, 'A')))
        ctl.add_rule(ConstantPWM(timer=Timer(start_time=Time(8.5 * dtv, 'sec'), duration=TimeInterval(2.0 * dtv, 'sec')), powertrain=pt,
                                 target_pwm_value=0.4))
        ctl.add_rule(ReachAngularPosition(encoder=enc, powertrain=pt, target_angular_position=AngularPosition(7.0, 'rad'),
                                          braking_angle=Angle(2.5, 'rad')))
        return ctl
    timer = Timer(start_time=Time(2.5 * dtv, 'sec'), duration=TimeInterval(3.0 * dtv, 'sec'))
    ctl.add_rule(ConstantPWM(timer=timer, powertrain=pt, target_pwm_value=0.4))
    enc = AbsoluteRotaryEncoder(target=m.elements[-1])
    ctl.add_rule(ReachAngularPosition(encoder=enc, powertrain=pt,
                                      target_angular_position=AngularPosition(400.0, 'rad'),
                                      braking_angle=Angle(100.0, 'rad')))
    return ctl


def execute(name, ops, dtv):
    """ops: list of ('run', n, dt_unit, T_unit) | ('reset',) | ('newsolver',).  Returns (observations per execution, error)."""
    spec, duty = model_spec(name)
    m = sim.Model(spec)
    if 'declared_pwm' in spec:
        m.elements[0].pwm = spec['declared_pwm']       # part of the declared initial state; reset() must bring it back itself
    ctl = install_rules(m, dtv, duty) if isinstance(duty, str) else None
    segs = []
    err = None
    for op in ops:
        if op[0] == 'run':
            _, n, du, tu = op[:4]
            open_loop = len(op) > 4 and op[4] == 'open'      # this run is given no motor control although the model has one
            dt = [si.convert(dtv, 'TimeInterval', 'sec', du), du]
            T = [si.convert(dtv * n, 'TimeInterval', 'sec', tu), tu]
            try:
                if ctl is not None and not open_loop:
                    m.run(dt, T, control=ctl)
                elif ctl is not None:
                    m.run(dt, T)
                else:
                    m.run(dt, T, duty=duty)
            except Exception as e:
                err = (type(e).__name__, str(e)[:160])
                break
        elif op[0] == 'reset':
            segs.append(m.observe())
            m.pt.reset()
            m.apply_init()
        elif op[0] == 'newsolver':
            m.new_solver()
    segs.append(m.observe())
    return segs, err, m


def compare(obs_a, obs_b, exact):
    """First difference between two observations, or None."""
    ta, tb = obs_a['time'], obs_b['time']
    if len(ta) != len(tb):
        return ('time-axis/length', {'a': len(ta), 'b': len(tb), 'a_last': ta[-1] if ta else None, 'b_last': tb[-1] if tb else None})
    for k, (x, y) in enumerate(zip(ta, tb)):
        if (x != y) if exact else not si.close(x, y, 1e-8, 1e-12):
            return ('time-axis/value', {'k': k, 'a': x, 'b': y})
    for i, (ea, eb) in enumerate(zip(obs_a['el'], obs_b['el'])):
        for var in ea:
            sa, sb = ea[var], eb.get(var)
            if sb is None or len(sa) != len(sb):
                return (f'history/length', {'i': i, 'var': var, 'a': len(sa), 'b': None if sb is None else len(sb)})
            scale = max([abs(v) for v in sa if v is not None] + [0.0])
            for k, (x, y) in enumerate(zip(sa, sb)):
                if x is None or y is None:
                    if x is not y:
                        return ('history/none', {'i': i, 'var': var, 'k': k})
                    continue
                if (x != y) if exact else not si.close(x, y, 1e-8, scale * 1e-6):
                    return ('history/value', {'i': i, 'var': var, 'k': k, 'a': x, 'b': y})
    return None


UNIT_COMBOS_Q = [('sec', 'sec'), ('ms', 'ms'), ('sec', 'ms'), ('min', 'sec')]
UNIT_COMBOS_T = [(a, b) for a in ('sec', 'ms', 'min', 'hour') for b in ('sec', 'ms', 'min', 'hour')]


def shards(tier):
    out = []
    for name in MODELS:
        for dtv in (DT, 0.1):
            out.append({'model': name, 'dt': dtv, 'mode': 'cont'})
            out.append({'model': name, 'dt': dtv, 'mode': 'reset'})
    return out


def ended_held(obs):
    m = obs['el'][0]
    return m['angular speed'][-1] == 0.0 and m['angular acceleration'][-1] == 0.0


def check_continuation(acc, name, dtv, ns, units, newsolver=False):
    """[run n1, run n2, ...] (later runs in `units`) vs one run of the total."""
    case = {'kind': 'cont', 'model': name, 'dt': dtv, 'ns': list(ns), 'units': list(units), 'newsolver': newsolver}
    ops = [('run', ns[0], 'sec', 'sec')]
    for n in ns[1:]:
        if newsolver:
            ops.append(('newsolver',))        # the continuation is performed by a Solver created after the earlier run
        ops.append(('run', n, units[0], units[1]))
    segs, err, _ = execute(name, ops, dtv)
    ref_segs, ref_err, _ = execute(name, [('run', sum(ns), 'sec', 'sec')], dtv)
    acc.executions += 2
    acc.transitions += len(segs[-1]['time']) + len(ref_segs[-1]['time'])
    unit_tag = ('same-unit' if units == ('sec', 'sec') else 'other-unit') + ('/continued-by-new-solver' if newsolver else '')
    binary = 'binary-dt' if dtv == DT else 'decimal-dt'
    if err or ref_err:
        acc.violation(f'C12/continuation/error/{unit_tag}', 'runs succeed', case, {'split': err, 'single': ref_err})
        return
    # the single run itself must have sum(ns)+1 instants, else the comparison is about C11, not C12
    if len(ref_segs[-1]['time']) != sum(ns) + 1:
        # the single run itself has the wrong number of instants: that is C11's subject; the comparison is skipped
        acc.outcomes['single-run-axis-wrong(C11)'] += 1
        acc.ambiguous += 1
        return
    d = compare(segs[-1], ref_segs[-1], exact=False)
    acc.outcomes[('cont', unit_tag, 'equal' if d is None else d[0])] += 1
    if d is not None:
        acc.violation(f'C12/continuation/{d[0]}/{unit_tag}/{binary}', 'run n1 + continue n2 == run n1+n2', case, d[1])


def check_reset(acc, name, dtv, ns, newsolver, mixed=False):
    case = {'kind': 'reset', 'model': name, 'dt': dtv, 'ns': list(ns), 'newsolver': newsolver, 'mixed': mixed}
    S = [('run', n, 'sec', 'sec') for n in ns]
    if mixed:
        # the first run of the schedule is open loop (no motor control passed), the later ones are controlled
        S[0] = S[0] + ('open',)
    ops = S + [('reset',)] + ([('newsolver',)] if newsolver else []) + S
    segs, err, m = execute(name, ops, dtv)
    acc.executions += 2
    if err:
        acc.violation(f'C12/reset/error', 'runs succeed', case, {'error': err})
        return
    first, second = segs[0], segs[-1]
    acc.transitions += len(first['time']) + len(second['time'])
    d = compare(first, second, exact=True)
    held = ended_held(first)
    pwm0 = first['el'][0]['pwm'][0]
    tag = ('new-solver' if newsolver else 'same-solver') + ('/open-loop-then-controlled' if mixed else '') + ('/ended-held' if held else '/ended-moving') + \
          ('/pwm0-differs-from-initial' if pwm0 != model_spec(name)[0].get('declared_pwm', 1) else '/pwm0-initial')
    acc.outcomes[('reset', tag, 'equal' if d is None else d[0])] += 1
    if d is not None:
        acc.violation(f'C12/reset/{d[0]}/{tag}', 'after reset and re-init the schedule reproduces the histories exactly', case, d[1])


def run_shard(shard, tier):
    acc = Acc()
    name, dtv = shard['model'], shard['dt']
    lo, hi = (2, 5) if tier == 'quick' else (2, 7)
    combos = UNIT_COMBOS_Q if tier == 'quick' else UNIT_COMBOS_T
    rng = range(lo, hi + 1)
    if shard['mode'] == 'cont':
        for n1 in rng:
            for n2 in rng:
                for units in combos:
                    check_continuation(acc, name, dtv, (n1, n2), units)
                    acc.nstates += 1
                    acc.cases += 1
                if name in ('plain', 'controlled', 'soft-start', 'limit-start', 'timeload'):
                    # (a Solver only carries the held state of a self-locking chain; on other chains a Solver created
                    #  between the runs holds nothing the continuation could depend on)
                    check_continuation(acc, name, dtv, (n1, n2), combos[0], newsolver=True)
                    acc.nstates += 1
        for n1, n2, n3 in itertools.product(range(2, 5 if tier == 'quick' else 6), repeat=3):
            for units in combos[:2]:
                check_continuation(acc, name, dtv, (n1, n2, n3), units)
                acc.nstates += 1
                acc.cases += 1
        acc.sample({'model': name, 'dt_s': dtv, 'schedule': '[run 3, run 4 (dt in ms, T in ms)] vs [run 7]'})
    else:
        for newsolver in (False, True):
            for n1 in rng:
                check_reset(acc, name, dtv, (n1,), newsolver)
                acc.nstates += 1
                acc.cases += 1
                for n2 in rng:
                    check_reset(acc, name, dtv, (n1, n2), newsolver)
                    acc.nstates += 1
                    acc.cases += 1
                    if isinstance(model_spec(name)[1], str):
                        check_reset(acc, name, dtv, (n1, n2), newsolver, mixed=True)
                        acc.nstates += 1
        acc.sample({'model': name, 'dt_s': dtv, 'schedule': '[run 4, run 3, reset, re-init, (new solver,) run 4, run 3]'})
    return acc


def replay(case):
    acc = Acc()
    if case.get('kind') == 'cont':
        check_continuation(acc, case['model'], case['dt'], tuple(case['ns']), tuple(case['units']), newsolver=case.get('newsolver', False))
    elif case.get('kind') == 'reset':
        check_reset(acc, case['model'], case['dt'], tuple(case['ns']), case['newsolver'], mixed=case.get('mixed', False))
    else:
        return run_shard(case['shard'], 'quick').violations
    return acc.violations
