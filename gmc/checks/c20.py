"""C20  A powertrain is exactly the drive chain reachable from its motor."""
from gearpy.mechanical_objects import DCMotor, Flywheel, SpurGear, WormGear, WormWheel
from gearpy.powertrain import Powertrain
from gearpy.units import Angle, AngularSpeed, InertiaMoment, Torque
from gearpy.utils import add_fixed_joint, add_gear_mating, add_worm_gear_mating

from gmc import menu, sim
from gmc.core import Acc

ID = 'C20'
RULE = ('BFS over ALL histories of valid relation declarations (joints between any two elements, both gear matings, worm '
        'matings in both orientations at a locking and a non-locking friction) to the depth on the universe '
        '{M, F, S1, S2, Wg, Ww}, states deduplicated on (drives map, worm flags); at every state whose reference graph is '
        'acyclic from M the powertrain is assembled under 3 name assignments; every further declaration is applied to an '
        'assembled powertrain and the object re-inspected; plus every grammar chain of 2..12 elements built directly; '
        'non-trivial = the motor drives something')
ASSUMPTIONS = ['cyclic drive graphs are outside the quantifier and are never handed to the constructor (it would not return); the harness walks the real links with a visited set first',
               'the reference is a dict of links: a declaration sets master.drives and nothing else relevant to the walk',
               'declarations that gearpy rejects only after mutating (C10 finding) are excluded from the event menu']
EXPLANATION = 'explicit-state BFS over declaration histories on the real functions and the real constructor; reference = link dict walk'

J1 = InertiaMoment(1, 'gm^2')
U = ['M', 'F', 'S1', 'S2', 'Wg', 'Ww']
NAMINGS = {
    'distinct': {k: k for k in U},
    'dup-F-S2': dict({k: k for k in U}, F='dup', S2='dup'),
    'dup-Wg-Ww': dict({k: k for k in U}, Wg='twin', Ww='twin'),
    # pairwise different strings that any normalisation (strip, case folding, unicode composition) would merge: no two share a name
    'near-miss': {'M': 'drive', 'F': 'drive ', 'S1': ' drive', 'S2': 'Drive', 'Wg': 'dr\u00edve', 'Ww': 'dri\u0301ve'},
}


def bounds(tier):
    return {'history_depth': 4 if tier == 'quick' else 5, 'events': len(EVENTS), 'namings': list(NAMINGS),
            'direct_chains_elements': [2, 12]}


def make(naming):
    nm = NAMINGS[naming]
    a20, b10 = Angle(20, 'deg'), Angle(10, 'deg')
    return {
        'M': DCMotor(name=nm['M'], inertia_moment=J1, no_load_speed=AngularSpeed(1000, 'rpm'), maximum_torque=Torque(1, 'Nm')),
        'F': Flywheel(name=nm['F'], inertia_moment=J1),
        'S1': SpurGear(name=nm['S1'], n_teeth=20, inertia_moment=J1),
        'S2': SpurGear(name=nm['S2'], n_teeth=30, inertia_moment=J1),
        'Wg': WormGear(name=nm['Wg'], n_starts=2, inertia_moment=J1, pressure_angle=a20, helix_angle=b10),
        'Ww': WormWheel(name=nm['Ww'], n_teeth=30, inertia_moment=J1, pressure_angle=a20, helix_angle=b10),
    }


def events():
    ev = []
    for a in U:
        for b in U[1:]:
            if a != b:
                ev.append(('joint', a, b, None))
    ev += [('gear', 'S1', 'S2', 0.9), ('gear', 'S2', 'S1', 0.8),
           ('worm', 'Wg', 'Ww', 0.3), ('worm', 'Wg', 'Ww', 0.1), ('worm', 'Ww', 'Wg', 0.1)]
    # declarations that must be REJECTED (efficiency < 0; incompatible kinds): the graph and the flags stay as they were
    ev += [('worm', 'Ww', 'Wg', 0.3, 'rejected'), ('gear', 'S1', 'Ww', 0.9, 'rejected'), ('joint', 'S1', 'M', None, 'rejected')]
    return ev


EVENTS = events()


def apply_event(objs, e):
    func, a, b, p = e[:4]
    if len(e) == 5:
        try:
            _apply(objs, func, a, b, p)
        except (ValueError, TypeError):
            return
        raise AssertionError(f'declaration {e} was expected to be rejected')
    _apply(objs, func, a, b, p)


def _apply(objs, func, a, b, p):
    if func == 'joint':
        add_fixed_joint(master=objs[a], slave=objs[b])
    elif func == 'gear':
        add_gear_mating(master=objs[a], slave=objs[b], efficiency=p)
    else:
        add_worm_gear_mating(master=objs[a], slave=objs[b], friction_coefficient=p)


# -- reference: a dict of links ------------------------------------------------------
def ref_apply(state, e):
    drives, flag = dict(state[0]), state[1]
    if len(e) == 5:
        return (drives, flag)              # rejected: nothing changes
    func, a, b, p = e
    drives[a] = b
    if func == 'worm':
        flag = p > 0.16574      # cos(20 deg) tan(10 deg) = 0.165692...; menu frictions are 0.1 and 0.3
    return (drives, flag)


def ref_walk(drives):
    seq, seen = ['M'], {'M'}
    while drives.get(seq[-1]) is not None:
        nxt = drives[seq[-1]]
        if nxt in seen:
            return None
        seq.append(nxt)
        seen.add(nxt)
    return seq


def ref_state(hist):
    st = ({}, None)
    for ei in hist:
        st = ref_apply(st, EVENTS[ei])
    return st


def canon(st):
    return (tuple(sorted(st[0].items())), st[1])


def real_walk(objs):
    """Walk the real links with a visited set (so that a cycle cannot hang the harness)."""
    seq, seen = [objs['M']], {id(objs['M'])}
    while getattr(seq[-1], 'drives', None) is not None:
        nxt = seq[-1].drives
        if id(nxt) in seen:
            return None
        seq.append(nxt)
        seen.add(id(nxt))
    return seq


def inspect(acc, case, objs, st, naming, extra_event=None):
    """Assemble the powertrain at this state and judge it; optionally apply one more declaration afterwards."""
    walk = ref_walk(st[0])
    key = {id(v): k for k, v in objs.items()}
    rw = real_walk(objs)
    if walk is None:
        if rw is not None:
            acc.violation('C20/links/real-acyclic-ref-cyclic', 'declared links match the reference graph', case,
                          {'real': [key[id(o)] for o in rw]})
        acc.outcomes['cyclic-skipped'] += 1
        return None
    if rw is None or [key[id(o)] for o in rw] != walk:
        acc.violation('C20/links/differ-from-reference', 'declared links match the reference graph', case,
                      {'real': None if rw is None else [key[id(o)] for o in rw], 'ref': walk})
        return None
    names = [NAMINGS[naming][k] for k in walk]
    dup = len(set(names)) != len(names)
    acc.transitions += 1
    try:
        pt = Powertrain(motor=objs['M'])
        outcome = 'ok'
    except Exception as ex:
        pt, outcome = None, type(ex).__name__
    if len(walk) == 1:
        exp = 'ValueError'
    elif dup:
        exp = 'NameError'
    else:
        exp = 'ok'
    acc.outcomes[(exp, len(walk))] += 1
    if outcome != exp:
        acc.violation(f'C20/construction/{exp}-expected-got-{outcome}', 'ValueError if the motor drives nothing; NameError iff two reachable elements share a name', case,
                      {'walk': walk, 'names': names})
        return None
    if pt is None:
        return None
    got = [key.get(id(o), '?') for o in pt.elements]
    if got != walk or not isinstance(pt.elements, tuple):
        acc.violation('C20/elements', 'elements = the chain reachable from the motor, in order, each once', case,
                      {'got': got, 'ref': walk, 'is_tuple': isinstance(pt.elements, tuple)})
    exp_sl = bool(st[1]) and 'Wg' in walk
    if pt.self_locking is not exp_sl:
        acc.violation('C20/self-locking', 'self-locking iff a reachable worm gear was flagged by its mating', case,
                      {'got': pt.self_locking, 'ref': exp_sl, 'walk': walk})
    for attr, val in (('elements', ()), ('self_locking', not exp_sl)):
        try:
            setattr(pt, attr, val)
            acc.violation(f'C20/assignable/{attr}', 'elements and the self-locking flag cannot be changed afterwards', case, {})
        except AttributeError:
            pass
    if extra_event is not None:
        before = tuple(pt.elements)
        try:
            apply_event(objs, EVENTS[extra_event])
        except Exception as ex:
            acc.violation('C20/harness/valid-event-raised', 'valid declaration accepted', case, {'exc': repr(ex)[:200]})
            return pt
        acc.transitions += 1
        if len(pt.elements) != len(before) or any(x is not y for x, y in zip(pt.elements, before)) \
                or pt.self_locking is not exp_sl:
            acc.violation('C20/changed-by-later-declaration', 'later declarations change neither the element tuple nor the flag', case,
                          {'before': [key[id(o)] for o in before], 'after': [key.get(id(o), '?') for o in pt.elements],
                           'flag': pt.self_locking})
    return pt


def build_state(hist, naming):
    objs = make(naming)
    for ei in hist:
        apply_event(objs, EVENTS[ei])
    return objs


def visit(acc, hist, with_extensions):
    """Judge the state reached by `hist` under every naming; then every one-event extension."""
    st = ref_state(hist)
    for naming in NAMINGS:
        case = {'kind': 'state', 'history': list(hist), 'naming': naming}
        try:
            objs = build_state(hist, naming)
        except Exception as ex:
            acc.violation('C20/harness/valid-event-raised', 'valid declaration accepted', case, {'exc': repr(ex)[:200]})
            return
        inspect(acc, case, objs, st, naming)
        acc.executions += 1
    if with_extensions and ref_walk(st[0]) is not None:
        for ei in range(len(EVENTS)):
            case = {'kind': 'ext', 'history': list(hist), 'event': ei}
            objs = build_state(hist, 'distinct')
            inspect(acc, case, objs, st, 'distinct', extra_event=ei)
            acc.executions += 1
            # ... and a powertrain assembled AFTER that declaration (accepted or rejected) is judged against the reference graph
            st2 = ref_apply(st, EVENTS[ei])
            if len(EVENTS[ei]) == 5 or canon(st2) == canon(st):
                inspect(acc, {'kind': 'state', 'history': list(hist) + [ei], 'naming': 'distinct'}, objs, st2, 'distinct')
                acc.executions += 1


def bfs_levels(depth):
    seen = {canon(({}, None))}
    levels = [[[]]]
    for d in range(depth):
        nxt = []
        for hist in levels[-1]:
            st = ref_state(hist)
            for ei in range(len(EVENTS)):
                k = canon(ref_apply(st, EVENTS[ei]))
                if k not in seen:
                    seen.add(k)
                    nxt.append(hist + [ei])
        levels.append(nxt)
    return levels


def shards(tier):
    depth = 4 if tier == 'quick' else 5
    levels = bfs_levels(depth)
    out = []
    CH = 40
    for d, lvl in enumerate(levels):
        for i in range(0, len(lvl), CH):
            out.append({'mode': 'bfs', 'level': d, 'hists': lvl[i:i + CH], 'ext': d < depth})
    nmax = 12
    chains = menu.chains(2, 5 if tier == 'quick' else 6) + menu.long_chains(nmax)
    for i in range(0, len(chains), 100):
        out.append({'mode': 'direct', 'chains': chains[i:i + 100]})
    out.append({'mode': 'flag-source'})
    return out


def check_direct(acc, chain_l):
    chain_l = [tuple(x) for x in chain_l]
    for locking in ([False, True] if menu.has_worm_drive(chain_l) else [False]):
        spec = menu.assign(chain_l, locking=locking)
        case = {'kind': 'direct', 'chain': chain_l, 'locking': locking}
        try:
            m = sim.Model(spec)
        except Exception as ex:
            acc.violation('C20/direct/build-error', 'grammar chain builds', case, {'exc': repr(ex)[:200]})
            continue
        acc.executions += 1
        acc.transitions += 1
        ok = len(m.pt.elements) == len(m.elements) and all(a is b for a, b in zip(m.pt.elements, m.elements))
        if not ok or not isinstance(m.pt.elements, tuple):
            acc.violation('C20/direct/elements', 'elements = declared chain in order', case,
                          {'got': [e.name for e in m.pt.elements], 'ref': m.names})
        if m.pt.self_locking is not locking:
            acc.violation('C20/direct/self-locking', 'self-locking iff a worm mating was flagged', case,
                          {'got': m.pt.self_locking, 'ref': locking})
        # "cannot be changed afterwards": neither simulating nor reset() may change the tuple or the flag
        before = tuple(m.pt.elements)
        try:
            m.run([0.125, 'sec'], [0.25, 'sec'])
            mid = (m.pt.self_locking, tuple(m.pt.elements))
            m.pt.reset()
            end = (m.pt.self_locking, tuple(m.pt.elements))
        except Exception as ex:
            acc.violation('C20/direct/simulate-reset-error', 'chain simulates and resets', case, {'exc': repr(ex)[:200]})
            continue
        acc.transitions += 2
        for tag, (flag, els) in (('after-run', mid), ('after-reset', end)):
            if flag is not locking or len(els) != len(before) or any(a is not b for a, b in zip(els, before)):
                acc.violation(f'C20/direct/changed/{tag}', 'the element tuple and the self-locking flag cannot change after assembly', case,
                              {'flag': flag, 'expected_flag': locking, 'elements': [e.name for e in els]})
                break
        acc.state(('direct', menu.chain_name(chain_l), locking))
        acc.outcomes[('direct', len(m.elements), locking)] += 1
        # the user keeps ONLY the powertrain (a factory function returning it): it still is the whole chain
        import gc

        def factory():
            els = [sim.make_element(e, f"{e['k']}{i}") for i, e in enumerate(spec['elements'])]
            for i, link in enumerate(spec['links']):
                sim.declare(els[i], els[i + 1], link)
            els[-1].external_torque = lambda time, angular_position, angular_speed: Torque(0, 'Nm')
            return Powertrain(motor=els[0]), [e.name for e in els]
        pt2, names = factory()
        gc.collect()
        acc.transitions += 1
        try:
            got = [e.name for e in pt2.elements]
            linked = all(a.drives is b and b.driven_by is a for a, b in zip(pt2.elements, pt2.elements[1:]))
        except Exception as ex:
            got, linked = repr(ex)[:120], False
        if got != names or not linked or pt2.self_locking is not locking:
            acc.violation('C20/direct/only-powertrain-kept', 'the powertrain consists of exactly the elements reachable from its motor, in order', case,
                          {'got': got, 'ref': names, 'links_intact': linked, 'flag': pt2.self_locking})


def check_flag_source(acc):
    """Which worm matings count: every accepted one, whichever element is the master, whatever the two helix angles.
    Chains M - a ~ b - S with a worm stage in either orientation; worm and wheel helix angles equal or different; friction
    grid across both thresholds.  A mating the library rejects is skipped (C10 judges that); for an accepted one the
    powertrain is self-locking exactly when the worm gear carries the flag its mating gave it."""
    a20 = Angle(20, 'deg')
    for worm_drives in (True, False):
        for bw in (5.0, 10.0):
            for bh in (5.0, 10.0, 15.0, 20.0):
                for f in (0.03, 0.08, 0.1, 0.12, 0.15, 0.2, 0.3):
                    for lead in ('joint', 'flywheel'):
                        case = {'kind': 'flag-source', 'worm_drives': worm_drives, 'beta_worm': bw, 'beta_wheel': bh, 'f': f, 'lead': lead}
                        mot = DCMotor(name='M', inertia_moment=J1, no_load_speed=AngularSpeed(1000, 'rpm'), maximum_torque=Torque(1, 'Nm'))
                        wg = WormGear(name='Wg', n_starts=2, inertia_moment=J1, pressure_angle=a20, helix_angle=Angle(bw, 'deg'))
                        ww = WormWheel(name='Ww', n_teeth=30, inertia_moment=J1, pressure_angle=a20, helix_angle=Angle(bh, 'deg'))
                        out = SpurGear(name='S', n_teeth=20, inertia_moment=J1)
                        first, second = (wg, ww) if worm_drives else (ww, wg)
                        acc.transitions += 1
                        try:
                            add_worm_gear_mating(master=first, slave=second, friction_coefficient=f)
                        except ValueError:
                            acc.outcomes[('flag-source', 'mating-rejected')] += 1
                            continue
                        head = mot
                        if lead == 'flywheel':
                            fl = Flywheel(name='F', inertia_moment=J1)
                            add_fixed_joint(master=mot, slave=fl)
                            head = fl
                        add_fixed_joint(master=head, slave=first)
                        add_fixed_joint(master=second, slave=out)
                        try:
                            pt = Powertrain(motor=mot)
                        except Exception as ex:
                            acc.violation('C20/flag-source/build-error', 'chain assembles', case, {'exc': repr(ex)[:200]})
                            continue
                        acc.executions += 1
                        flagged = bool(wg.self_locking)
                        acc.outcomes[('flag-source', 'worm-drives' if worm_drives else 'wheel-drives', 'equal-helix' if bw == bh else 'different-helix', flagged)] += 1
                        acc.state(('flag-source', worm_drives, bw, bh, f, lead))
                        if pt.self_locking is not flagged:
                            acc.violation('C20/flag-source/' + ('worm-drives' if worm_drives else 'wheel-drives'),
                                          'self-locking exactly when it contains a worm gear whose mating was flagged self-locking', case,
                                          {'powertrain': pt.self_locking, 'worm_gear_flag': wg.self_locking})


def run_shard(shard, tier):
    acc = Acc()
    if shard['mode'] == 'flag-source':
        check_flag_source(acc)
        acc.sample({'mode': 'worm stage in either orientation, helix angles equal or different, friction grid'})
        acc.cases += acc.executions
        return acc
    if shard['mode'] == 'bfs':
        for hist in shard['hists']:
            visit(acc, hist, shard['ext'])
            acc.state(canon(ref_state(hist)))
        h = shard['hists'][0]
        acc.sample({'mode': f'BFS level {shard["level"]}', 'history': [EVENTS[e] for e in h],
                    'reference_walk': ref_walk(ref_state(h)[0]), 'namings': list(NAMINGS)})
    else:
        for c in shard['chains']:
            check_direct(acc, c)
        acc.sample({'mode': 'direct chain', 'chain': menu.chain_name([tuple(x) for x in shard['chains'][-1]])})
    acc.cases += acc.executions
    return acc


def replay(case):
    acc = Acc()
    k = case.get('kind')
    if k == 'state':
        st = ref_state(case['history'])
        objs = build_state(case['history'], case['naming'])
        inspect(acc, case, objs, st, case['naming'])
    elif k == 'ext':
        st = ref_state(case['history'])
        objs = build_state(case['history'], 'distinct')
        inspect(acc, case, objs, st, 'distinct', extra_event=case['event'])
    elif k == 'direct':
        check_direct(acc, case['chain'])
    elif k == 'flag-source':
        check_flag_source(acc)
    else:
        return run_shard(case['shard'], 'quick').violations
    return acc.violations
