"""C11  The time axis is the uniform grid 0, dt, ..., T and never overruns T."""
import math
from fractions import Fraction as F

import numpy

from gmc import sim, si
from gmc.core import Acc

ID = 'C11'
RULE = ('all decimal steps dt = m*10^-e (m, e in the bounds) x all step counts n x T written as dt*n or as the '
        'decimal literal x 4 time units, fresh runs; continuations with their own (n2, representation); stop '
        'conditions give a prefix; oracle = exact rational grid; canon = (dt, T, unit, representation); non-trivial = '
        'dt not an integer')
ASSUMPTIONS = ['grid values compared at 1e-9 relative; the count is compared exactly',
               'every inertia of the model is Tmax dt / w0 (k dt <= 0.5), so the motion is stable at every step size from 1 ms to 99 hours',
               'the known defect is characterised independently: numpy.arange with the same three floats yields one element too many']
EXPLANATION = 'exhaustive enumeration of decimal (dt, n) pairs on a 2-element model; oracle = Fractions'

SPEC = {'elements': [{'k': 'M', 'J': [1.0, 'gm^2'], 'w0': [2000.0, 'rpm'], 'Tmax': [10.0, 'mNm']},
                     {'k': 'S', 'z': 20, 'J': [5.0, 'gm^2']}],
        'links': [{'t': 'J'}], 'load': ['const', 0.001],
        'init': {'theta': [0.0, 'rad'], 'w': [0.0, 'rad/s']}}
UNITS = ['sec', 'ms', 'min', 'hour']
SPEC_HELD = {'elements': [{'k': 'M', 'J': [1.0, 'gm^2'], 'w0': [2000.0, 'rpm'], 'Tmax': [10.0, 'mNm'], 'i0': [0.1, 'A'], 'imax': [2.0, 'A']},
                          {'k': 'Wg', 'starts': 2, 'J': [1.0, 'gm^2'], 'beta': [10.0, 'deg'], 'alpha': [20.0, 'deg']},
                          {'k': 'Ww', 'z': 30, 'J': [5.0, 'gm^2'], 'beta': [10.0, 'deg'], 'alpha': [20.0, 'deg']}],
             'links': [{'t': 'J'}, {'t': 'W', 'f': 0.3}], 'load': ['const', 0.05],
             'init': {'theta': [0.0, 'rad'], 'w': [0.0, 'rad/s']}}


def spec_for(base, dt, unit):
    """The model with every inertia set to Tmax dt / w0, so that k dt <= 0.5 whatever the step (ms or hours): explicit
    Euler is unstable beyond k dt = 2 and a run of 100 steps of hours would overflow on a fixed model.  The time axis,
    not the motion, is the subject here; the motion stays lively (and finite) at every step size."""
    import copy
    spec = copy.deepcopy(base)
    mot = spec['elements'][0]
    J = si.si(*mot['Tmax'][:1], 'Torque', mot['Tmax'][1]) * si.si(dt, 'TimeInterval', unit) / si.si(mot['w0'][0], 'AngularSpeed', mot['w0'][1])
    for el in spec['elements']:
        el['J'] = [J, 'kgm^2']
    return spec


def check_held(acc, m, e, n, unit, pwm):
    """A self-locking chain held by its load (motor off, or overloaded), no motor control, no stop condition:
    the axis is still the full grid, fresh and continued."""
    dtF = dec(m, e)
    dt, T = float(dtF), float(dtF * n)
    case = {'kind': 'held', 'm': m, 'e': e, 'n': n, 'unit': unit, 'pwm': pwm}
    mod = sim.Model(spec_for(SPEC_HELD, dt, unit))
    mod.elements[0].pwm = pwm
    try:
        mod.run([dt, unit], [T, unit])
        vals = [t.to(unit).value for t in mod.pt.time]
        r = judge(acc, case, vals, 0.0, dt, T, n, f'held-chain/pwm={pwm}', first=True)
        mod.run([dt, unit], [T, unit])
        vals2 = [t.to(unit).value for t in mod.pt.time]
        if r == 'ok':
            judge(acc, case, vals2[len(vals) - 1:], vals[-1], dt, T, n, f'held-chain-continued/pwm={pwm}', first=False)
    except Exception as ex:
        acc.violation(f'C11/held-chain/run-error/{type(ex).__name__}', 'run succeeds', case, {'exc': repr(ex)[:200]})
        return
    acc.executions += 2
    acc.transitions += len(vals2)
    acc.outcomes[('held-chain', pwm)] += 1


def bounds(tier):
    return {'m_max': 25 if tier == 'quick' else 99, 'e': [0, 1, 2, 3], 'n_max': 60 if tier == 'quick' else 120,
            'units': UNITS, 'continuation': 'n2 in {2,3,7} after n1 = n',
            'long_runs_n_max': 200 if tier == 'quick' else '1000 (every n to 200, every 7th beyond)'}


def shards(tier):
    mmax = 25 if tier == 'quick' else 99
    return [{'m': m, 'e': e} for m in range(1, mmax + 1) for e in range(4)]


def dec(m, e):
    return F(m, 10 ** e)


def arange_overruns(start, stop, step, expected):
    """Independent predicate characterising the known arange defect."""
    return len(numpy.arange(start, stop, step)) != expected


def check_run(acc, m, e, n, rep, unit, cont=None):
    dtF = dec(m, e)
    dt = float(dtF)
    T = dt * n if rep == 'mul' else float(dtF * n)
    if dtF.denominator == 1 and rep == 'lit' and n % 2:
        dt, T = int(dtF), int(dtF * n)          # integer-valued quantities
    case = {'kind': 'run', 'm': m, 'e': e, 'n': n, 'rep': rep, 'unit': unit, 'cont': cont}
    mod = sim.Model(spec_for(SPEC, dt, unit))
    try:
        mod.run([dt, unit], [T, unit])
    except Exception as ex:
        acc.violation(f'C11/run-error/{type(ex).__name__}', 'run succeeds', case, {'exc': repr(ex)[:200]})
        return
    acc.executions += 1
    times = mod.pt.time
    vals = [t.to(unit).value for t in times]
    acc.transitions += len(vals)
    ok = judge(acc, case, vals, 0.0, dt, T, n, 'fresh', first=True)
    acc.outcomes[('fresh', ok)] += 1
    if cont and ok == 'ok':
        n2, rep2 = cont
        T2 = dt * n2 if rep2 == 'mul' else float(dtF * n2)
        before = len(vals)
        # every other continuation expresses dt and T in another time unit (same physical step)
        cu = UNITS[(UNITS.index(unit) + 1 + (n + m) % 3) % 4] if (n + e) % 2 else unit
        try:
            mod.run([si.convert(dt, 'TimeInterval', unit, cu), cu], [si.convert(T2, 'TimeInterval', unit, cu), cu])
        except Exception as ex:
            acc.violation(f'C11/continuation-error/{type(ex).__name__}', 'continuation succeeds', case, {'exc': repr(ex)[:200]})
            return
        acc.executions += 1
        vals2 = [t.to(unit).value for t in mod.pt.time]
        acc.transitions += len(vals2) - before
        if vals2[:before] != vals:
            acc.violation('C11/continuation-rewrote-history', 'continuation appends', case, {})
            return
        ok2 = judge(acc, case, vals2[before - 1:], vals[-1], dt, T2, n2,
                    'continuation' if cu == unit else 'continuation-other-unit', first=False)
        acc.outcomes[('continuation', ok2)] += 1


def check_other_schedules(acc, m, e, n, unit):
    """(a) run, reset, run on the SAME Solver: the second axis is again the fresh grid 0, dt, ..., T;
       (b) continuation with a step that does not divide the previous final time: instants start + i*dt2."""
    dtF = dec(m, e)
    dt = float(dtF)
    T = float(dtF * n)
    case = {'kind': 'sched', 'm': m, 'e': e, 'n': n, 'unit': unit}
    mod = sim.Model(spec_for(SPEC, dt, unit))
    try:
        mod.run([dt, unit], [T, unit])
        mod.pt.reset()
        mod.apply_init()
        mod.run([dt, unit], [T, unit])
    except Exception as ex:
        acc.violation(f'C11/after-reset/run-error/{type(ex).__name__}', 'run, reset, run succeeds', case, {'exc': repr(ex)[:200]})
        return
    acc.executions += 2
    vals = [t.to(unit).value for t in mod.pt.time]
    acc.transitions += len(vals)
    r = judge(acc, case, vals, 0.0, dt, T, n, 'after-reset-same-solver', first=True)
    acc.outcomes[('after-reset', r)] += 1
    # (b)
    dt2 = dt * 0.7
    n2 = 2 + (n + m) % 4
    T2 = dt2 * n2
    before = len(vals)
    try:
        mod.run([dt2, unit], [T2, unit])
    except Exception as ex:
        acc.violation(f'C11/continuation-other-step/run-error/{type(ex).__name__}', 'continuation succeeds', case, {'exc': repr(ex)[:200]})
        return
    acc.executions += 1
    vals2 = [t.to(unit).value for t in mod.pt.time]
    acc.transitions += len(vals2) - before
    if r == 'ok' and vals2[:before] == vals:
        r2 = judge(acc, case, vals2[before - 1:], vals[-1], dt2, T2, n2, 'continuation-other-step', first=False)
        acc.outcomes[('continuation-other-step', r2)] += 1


def check_aborted_first_instant(acc, m, e, n, unit):
    """The first run dies at its very first instant (the user's load function raises); the user repairs the function, gives
    the last element a null initial acceleration and runs again on the same powertrain.  If the library accepts the
    second attempt, the axis is the grid 0, dt, ..., T -- time 0 once."""
    from gearpy.units import AngularAcceleration
    dtF = dec(m, e)
    dt, T = float(dtF), float(dtF * n)
    case = {'kind': 'aborted', 'm': m, 'e': e, 'n': n, 'unit': unit}
    mod = sim.Model(spec_for(SPEC, dt, unit))
    good = mod.elements[-1].external_torque

    def broken(time, angular_position, angular_speed):
        raise RuntimeError('load function not ready')
    mod.elements[-1].external_torque = broken
    try:
        mod.run([dt, unit], [T, unit])
        return
    except RuntimeError:
        pass
    mod.elements[-1].external_torque = good
    mod.elements[-1].angular_acceleration = AngularAcceleration(0, 'rad/s^2')
    try:
        mod.run([dt, unit], [T, unit])
    except Exception:
        acc.outcomes[('retry-after-aborted-first-instant', 'refused')] += 1
        return
    acc.executions += 1
    vals = [t.to(unit).value for t in mod.pt.time]
    acc.transitions += len(vals)
    r = judge(acc, case, vals, 0.0, dt, T, n, 'retry-after-aborted-first-instant', first=True)
    acc.outcomes[('retry-after-aborted-first-instant', r)] += 1


def check_stopped(acc, m, e, n, unit):
    """With a stop condition the axis is a prefix of the grid."""
    dtF = dec(m, e)
    dt = float(dtF)
    T = float(dtF * n)
    case = {'kind': 'stopped', 'm': m, 'e': e, 'n': n, 'unit': unit}
    base = sim.Model(spec_for(SPEC, dt, unit))
    base.run([dt, unit], [T, unit])
    pos = base.series(1, 'angular position')
    k = max(1, n // 2)
    if not (pos[k] < pos[min(k + 1, n)]):
        return
    thr = (pos[k] + pos[min(k + 1, n)]) / 2.0
    mod = sim.Model(spec_for(SPEC, dt, unit))
    try:
        mod.run([dt, unit], [T, unit], stop=sim.make_stop(mod, ['encoder', 1, '>=', [thr, 'rad']]))
    except Exception as ex:
        acc.violation(f'C11/stopped/run-error/{type(ex).__name__}', 'run succeeds', case, {'exc': repr(ex)[:200]})
        return
    acc.executions += 1
    vals = [t.to(unit).value for t in mod.pt.time]
    full = [t.to(unit).value for t in base.pt.time]
    acc.transitions += len(vals)
    if len(vals) > len(full) or vals != full[:len(vals)]:
        acc.violation('C11/stopped/not-a-prefix', 'with a stop condition the axis is a prefix of the grid', case,
                      {'stopped': vals[-3:], 'full': full[:len(vals)][-3:]})
    elif len(vals) == len(full) and k + 1 < n:
        acc.violation('C11/stopped/did-not-stop', 'harness expected an early stop', case, {'instants': len(vals)})
    acc.outcomes[('stopped', len(vals) < len(full))] += 1


def check_reexpressing_load(acc, m, e, n, unit):
    """The user's load function re-expresses the `time` it receives IN PLACE (time.to(u, inplace=True): the same instant,
    written in another unit), at the first instant only or at every instant; then a continuation.  The axis is still the
    grid 0, dt, ..., T (seed C11-10: later instants were labelled with the unit of the aliased first instant)."""
    dtF = dec(m, e)
    dt, T = float(dtF), float(dtF * n)
    for which in ('first-instant', 'every-instant'):
        other = UNITS[(UNITS.index(unit) + 1 + (n + m + (which == 'every-instant')) % 3) % 4]
        case = {'kind': 'reexpress', 'm': m, 'e': e, 'n': n, 'unit': unit, 'which': which, 'other': other}
        mod = sim.Model(spec_for(SPEC, dt, unit))
        good = mod.elements[-1].external_torque

        def load(time, angular_position, angular_speed, good=good, mod=mod, which=which, other=other):
            r = good(time=time, angular_position=angular_position, angular_speed=angular_speed)
            if which == 'every-instant' or len(mod.pt.time) == 1:
                time.to(other, inplace=True)
            return r
        mod.elements[-1].external_torque = load
        try:
            mod.run([dt, unit], [T, unit])
        except Exception as ex:
            acc.violation(f'C11/load-reexpresses-time/run-error/{type(ex).__name__}', 'run succeeds', case, {'exc': repr(ex)[:200]})
            continue
        acc.executions += 1
        vals = [t.to(unit).value for t in mod.pt.time]
        acc.transitions += len(vals)
        r = judge(acc, case, vals, 0.0, dt, T, n, f'load-reexpresses-time/{which}', first=True)
        acc.outcomes[('load-reexpresses-time', which, r)] += 1
        if r != 'ok':
            continue
        n2 = 2 + (n + m) % 3
        T2 = float(dtF * n2)
        try:
            mod.run([dt, unit], [T2, unit])
        except Exception as ex:
            acc.violation(f'C11/load-reexpresses-time/continuation/run-error/{type(ex).__name__}', 'continuation succeeds', case, {'exc': repr(ex)[:200]})
            continue
        acc.executions += 1
        vals2 = [t.to(unit).value for t in mod.pt.time]
        acc.transitions += len(vals2) - len(vals)
        r2 = judge(acc, case, vals2[len(vals) - 1:], vals2[len(vals) - 1], dt, T2, n2, f'load-reexpresses-time/{which}/continuation', first=False)
        acc.outcomes[('load-reexpresses-time/continuation', which, r2)] += 1


def judge(acc, case, vals, start, dt, T, n, phase, first):
    """vals[0] is the start instant; then n further instants spaced dt, last == start + T."""
    got = len(vals) - 1
    if got != n:
        final = start + T + dt
        known = arange_overruns(start + dt, final, dt, n)
        regime = 'arange-overrun' if (known and got == n + 1) else 'other'
        acc.violation(f'C11/{phase}/count/{regime}', 'exactly round(T/dt) further instants', case,
                      {'got': got, 'expected': n, 'last': vals[-1], 'T_end': start + T})
        return 'count'
    for i, v in enumerate(vals):
        exp = start + i * dt
        if not si.close(v, exp, 1e-9, abs(start) + abs(T)):
            acc.violation(f'C11/{phase}/grid', 'instant i = start + i dt', case, {'i': i, 'got': v, 'expected': exp})
            return 'grid'
    if vals[-1] > (start + T) * (1 + 1e-9) + 1e-300:
        acc.violation(f'C11/{phase}/beyond-T', 'no instant beyond T', case, {'last': vals[-1], 'T_end': start + T})
        return 'beyond'
    return 'ok'


def run_shard(shard, tier):
    acc = Acc()
    m = shard['m']
    nmax = 60 if tier == 'quick' else 120
    for e in [shard['e']]:
        for n in range(2, nmax + 1):
            for rep in ('mul', 'lit'):
                units = UNITS if (n % 7 == 2 or tier != 'quick') else ['sec']
                for unit in units:
                    cont = None
                    if n % 5 == 0 or tier != 'quick':
                        cont = ((2, 3, 7)[(n + m) % 3], 'mul' if (n + e) % 2 else 'lit')
                    check_run(acc, m, e, n, rep, unit, cont)
                    acc.nstates += 1
                    acc.cases += 1
                    if rep == 'lit' and n >= 4 and (n % 3 == 1 or tier != 'quick'):
                        check_stopped(acc, m, e, n, unit)
                        acc.nstates += 1
                    if rep == 'lit' and (n % 4 == 2 or tier != 'quick'):
                        check_other_schedules(acc, m, e, n, unit)
                        acc.nstates += 1
                        check_aborted_first_instant(acc, m, e, n, unit)
                        acc.nstates += 1
                        check_reexpressing_load(acc, m, e, n, unit)
                        acc.nstates += 1
                    if rep == 'lit' and (n % 10 == 3 or tier != 'quick') and n <= 40:
                        for pwm in (0, 1, -1):
                            check_held(acc, m, e, n, unit, pwm)
                            acc.nstates += 1
    # long runs: the quotient T/dt of a decimal step drifts below / above the integer n by an error that grows with n
    lo, hi = (nmax + 1, 200) if tier == 'quick' else (nmax + 1, 1000)
    # (thorough: every 7th n beyond 200, the offset rotating with the step, so that all residues are met across the shards)
    ns = list(range(lo, hi + 1)) if tier == 'quick' else list(range(lo, 201)) + list(range(201 + (m % 7), hi + 1, 7))
    for n in ns:
        unit = UNITS[(n + m) % 4]
        check_run(acc, m, shard['e'], n, 'lit' if n % 2 else 'mul', unit, cont=((5, 'lit') if n % 50 == 0 else None))
        acc.nstates += 1
        acc.cases += 1
    acc.sample({'dt': f'{m}e-2', 'n': 30, 'T': 'dt*n and decimal literal', 'units': UNITS})
    return acc


def replay(case):
    acc = Acc()
    if case.get('kind') == 'aborted':
        check_aborted_first_instant(acc, case['m'], case['e'], case['n'], case['unit'])
        return acc.violations
    if case.get('kind') == 'reexpress':
        check_reexpressing_load(acc, case['m'], case['e'], case['n'], case['unit'])
        return [v for v in acc.violations if v['case'].get('which') == case.get('which')]
    if case.get('kind') == 'held':
        check_held(acc, case['m'], case['e'], case['n'], case['unit'], case['pwm'])
        return acc.violations
    if case.get('kind') == 'sched':
        check_other_schedules(acc, case['m'], case['e'], case['n'], case['unit'])
        return acc.violations
    if case.get('kind') == 'stopped':
        check_stopped(acc, case['m'], case['e'], case['n'], case['unit'])
        return acc.violations
    if case.get('kind') == 'run':
        check_run(acc, case['m'], case['e'], case['n'], case['rep'], case['unit'],
                  tuple(case['cont']) if case.get('cont') else None)
        return acc.violations
    return run_shard(case['shard'], 'quick').violations
