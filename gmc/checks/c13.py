"""C13  A self-locking powertrain is never driven by its load."""
import collections
import itertools
import math

from gmc import menu, sim, traj, si, ref
from gmc.core import Acc
from gmc.checks.c03 import deviations

ID = 'C13'
RULE = ('worm geometries (4 pressure angles x 4 helix angles) x friction on both sides of the self-locking '
        'threshold x {worm->wheel, + gear stage} x {motor with/without current data} x dt x initial speed; the '
        'environment picks (duty, load) at every instant: ALL sequences to the depth on the base configurations, all '
        'sequences with <= b deviations from (duty 1, load 1.2 stall) on every configuration; the reference lock '
        'automaton runs alongside; canon = bit pattern of (motor speed, acceleration, net torque, duty, automaton flag, instant) + config')
ASSUMPTIONS = ['"duty cycle in force" at instant k = the one left by instant k-1 (the motor attribute before a fresh run)',
               'self-locking criterion f > cos(alpha) tan(beta) from the statement; configurations whose documented efficiency falls outside [0,1] are not buildable and are skipped',
               'lock/release decisions within 1e-9 of their thresholds are counted as ambiguous and resynchronised']
EXPLANATION = 'exhaustive environment sequences against the real solver with a reference lock automaton; abstract situation coverage reported'

DUTIES = [1, 0.3, 0, -0.3, -1]
LOADS = [1.2, 0.0, -1.2, 20.0, -20.0]
ENV = [(d, l) for d in DUTIES for l in LOADS]
ALPHAS = [14.5, 20.0, 25.0, 30.0]
MAXH = {14.5: 16.0, 20.0: 25.0, 25.0: 35.0, 30.0: 45.0}
DTS = [0.125, 0.015625, 0.5]
INITW = [0.0, 2.0, -2.0]


def bounds(tier):
    return {'full_product_depth': 3 if tier == 'quick' else '4 on the 2 base configurations with current data at rest, 3 on the other 6',
            'deviation_bound': 1 if tier == 'quick' else '2 over 8 instants on 16 configurations (2 geometries x 4 topologies x 2 friction sides), 1 over 10 instants on all',
            'deviation_horizon': 6 if tier == 'quick' else 10,
            'duty_alphabet': DUTIES, 'load_alphabet_x_stall': LOADS,
            'geometries': 16, 'dts': DTS, 'initial_speeds': INITW}


def geometries():
    for a in ALPHAS:
        for b in (5.0, 10.0, 15.0, MAXH[a]):
            yield a, b


def make_spec(alpha, beta, side, topo, cur, w_init):
    fstar = math.cos(math.radians(alpha)) * math.tan(math.radians(beta))
    if side == 'lock':
        f = min(1.3 * fstar, (fstar + 1) / 2)
    elif side == 'lock-near':
        f = 1.02 * fstar
    elif side == 'free-near':
        f = 0.98 * fstar
    else:
        f = 0.7 * fstar
    eta = ref.worm_efficiency(math.radians(alpha), math.radians(beta), f, True)
    if not (0 < eta <= 1) or f > 1:
        return None
    motor = dict(menu.MOTOR_CUR if cur else menu.MOTOR_PLAIN)
    els = [motor,
           {'k': 'Wg', 'starts': 2, 'J': [1.0, 'gm^2'], 'beta': [beta, 'deg'], 'alpha': [alpha, 'deg']},
           {'k': 'Ww', 'z': 30, 'J': [5.0, 'gm^2'], 'beta': [beta, 'deg'], 'alpha': [alpha, 'deg']}]
    links = [{'t': 'J'}, {'t': 'W', 'f': f}]
    if topo == 2:
        els += [{'k': 'S', 'z': 12, 'J': [0.5, 'gm^2']}, {'k': 'S', 'z': 30, 'J': [3.0, 'gm^2']}]
        links += [{'t': 'J'}, {'t': 'G', 'eta': 0.9}]
    if topo in (3, 4):
        # a second worm stage with a mild, never self-locking friction: before (3) or after (4) the stage under test
        free = [{'k': 'Wg', 'starts': 3, 'J': [1.0, 'gm^2'], 'beta': [15.0, 'deg'], 'alpha': [20.0, 'deg']},
                {'k': 'Ww', 'z': 24, 'J': [4.0, 'gm^2'], 'beta': [15.0, 'deg'], 'alpha': [20.0, 'deg']}]
        fl = [{'t': 'J'}, {'t': 'W', 'f': 0.05}]
        if topo == 3:
            els = [els[0]] + free + els[1:]
            links = fl + links
        else:
            els = els + free
            links = links + fl
    return {'elements': els, 'links': links, 'load': ['const', 0.0],
            'init': {'theta': [0.0, 'rad'], 'w': [w_init, 'rad/s']}}


def in_unit(spec, unit):
    """The initial speed written in another unit (a held chain's speeds become 0 rad/s objects: units then differ along the history)."""
    w = spec['init']['w']
    spec['init']['w'] = [si.convert(w[0], 'AngularSpeed', w[1], unit), unit]
    spec['init']['theta'] = [0.0, 'deg']
    return spec


BASE = dict(alpha=20.0, beta=10.0, topo=1, cur=True, dt=0.125, w=0.0)


def shards(tier):
    out = []
    # full products on the base configurations, split by the first choice
    for side in ('lock', 'free'):
        for cur in (True, False):
            for w in (INITW if cur else INITW[:1]):
                for first in range(len(ENV)):
                    out.append({'mode': 'full', 'cfg': dict(BASE, side=side, cur=cur, w=w), 'first': first})
    # no motor control: duty cycle set by hand before the first run and between continuations (seed C13-11)
    for side in ('lock', 'free'):
        for cur in (True, False):
            out.append({'mode': 'hand', 'cfg': dict(BASE, side=side, cur=cur, w=INITW[0])})
    # deviation-bounded sequences on every configuration (single-axis deviations of dt/motor/init/topology)
    for a, b in geometries():
        for side in ('lock', 'free'):
            for topo in ((1, 2, 3, 4) if (a, b) in ((20.0, 10.0), (14.5, 5.0)) else (1, 2)):
                cfgs = [dict(BASE, alpha=a, beta=b, side=side, topo=topo)]
                cfgs.append(dict(cfgs[0], cur=False))
                cfgs.append(dict(cfgs[0], w=INITW[1], wunit='rpm'))
                # the same chain with its relations declared in another order (matings before the joints / last link first)
                cfgs.append(dict(cfgs[0], order='matings-first' if topo % 2 else 'reverse'))
                if topo == 1:
                    # a micro-mechanism: every torque and inertia 1e-9 times smaller, written in kNm / kgm^2 (raw values ~1e-14)
                    cfgs.append(dict(cfgs[0], scale=1e-9))
                if tier == 'quick':
                    cfgs += [dict(cfgs[0], dt=DTS[1]), dict(cfgs[0], w=INITW[2])]
                else:
                    cfgs += [dict(cfgs[0], dt=d) for d in DTS[1:]]
                    cfgs += [dict(cfgs[0], w=w) for w in INITW[1:]]
                out.append({'mode': 'dev', 'cfgs': cfgs})
    # frictions 2% beside the threshold, every geometry (the criterion itself, at every pressure angle)
    for a, b in geometries():
        out.append({'mode': 'dev', 'cfgs': [dict(BASE, alpha=a, beta=b, side=sd, topo=1) for sd in ('lock-near', 'free-near')]})
    return out


def check_case(acc, cfg, env_seq, cover, split=None, hand=None):
    spec = make_spec(cfg['alpha'], cfg['beta'], cfg['side'], cfg['topo'], cfg['cur'], cfg['w'])
    if spec is None:
        acc.outcomes['not-buildable'] += 1
        return
    if cfg.get('wunit'):
        in_unit(spec, cfg['wunit'])
    if cfg.get('scale'):
        spec = menu.scaled(spec, cfg['scale'])
    if cfg.get('order'):
        spec['declare_order'] = cfg['order']
    stall = menu.stall_at_output(spec)
    duty = [ENV[i][0] for i in env_seq]
    spec['load'] = ['script', [ENV[i][1] * stall for i in env_seq]]
    n = len(env_seq)
    dt = [cfg['dt'], 'sec']
    case = {'kind': 'case', 'cfg': cfg, 'env': list(env_seq), 'split': split}
    if hand:
        # no motor control at all: the user sets the duty cycle by hand before the first run and between the runs
        # (hand = one duty cycle per segment; the duty column of env_seq is not used)
        case['hand'] = list(hand)
        seg = n // len(hand)
        ops = []
        for j, d in enumerate(hand):
            ops += [('setpwm', d), ('run', dt, [cfg['dt'] * (seg - 1 if j == 0 else seg), 'sec'], None, None)]
    elif split:
        ops = [('run', dt, [cfg['dt'] * (split - 1), 'sec'], duty, None),
               ('run', dt, [cfg['dt'] * (n - split), 'sec'], duty, None)]
    else:
        ops = [('run', dt, [cfg['dt'] * (n - 1), 'sec'], duty, None)]
    m, info = sim.run_schedule(spec, ops)
    acc.executions += 1
    if info['error']:
        acc.violation(f'C13/run-error/{info["error"][0]}', 'simulation runs', case, {'error': info['error']})
        return
    chain = sim.chain_ref(spec)
    expect_sl = cfg['side'].startswith('lock')
    if chain.self_locking != expect_sl or m.pt.self_locking != expect_sl:
        acc.violation('C13/self-locking-flag', 'powertrain self-locking flag = (f > cos(alpha) tan(beta))', case,
                      {'powertrain': m.pt.self_locking, 'reference': chain.self_locking})
        return
    obs = m.observe()
    if len(obs['time']) != n:
        acc.outcomes['instant-count-differs-from-request'] += 1      # C11's business
        n = min(n, len(obs['time']))

    def emit(sfx, clause, k, detail):
        dd = dict(detail)
        dd.update(instant=k)
        acc.violation(f'C13/{sfx}' + ('/continued-run' if split else '') + ('/duty-set-by-hand-between-runs' if hand else ''), clause, case, dd)

    chk, amb = traj.locking(obs, chain, emit, info['dts'], info['starts'], cover, duty_overrides=info.get('duty_overrides'))
    acc.transitions += chk
    acc.ambiguous += amb
    if not chain.self_locking:
        # never clamped: C03's unclamped update holds at every transition (including back-driven speeds)
        def emit3(sfx, clause, k, detail):
            dd = dict(detail)
            dd.update(instant=k)
            acc.violation(f'C13/free-chain/{sfx}', clause, case, dd)
        acc.transitions += traj.motion(obs, chain, emit3, info['dts'], info['starts'])
    mot = obs['el'][0]
    key0 = (cfg['alpha'], cfg['beta'], cfg['side'], cfg['topo'], cfg['cur'], cfg['dt'], cfg.get('wunit'), cfg.get('scale'), cfg.get('order'))
    for k in range(n):
        acc.state((key0, k, mot['angular speed'][k], mot['angular acceleration'][k], mot['torque'][k],
                   mot['pwm'][k]))
    acc.outcomes[(cfg['side'].split('-')[0], 'stopped-some' if any(mot['angular speed'][k] == 0 for k in range(1, n)) else 'moving')] += 1
    acc.cases += 1


def run_shard(shard, tier):
    acc = Acc()
    cover = collections.Counter()
    if shard['mode'] == 'full':
        # thorough: depth 4 on the two base configurations with current data starting at rest, depth 3 on the others
        d = 4 if (tier != 'quick' and shard['cfg']['cur'] and shard['cfg']['w'] == 0.0) else 3
        for rest in itertools.product(range(len(ENV)), repeat=d - 1):
            s = (shard['first'],) + rest
            check_case(acc, shard['cfg'], s, cover)
        acc.sample({'cfg': shard['cfg'], 'mode': 'full product', 'env_sequence': [ENV[i] for i in s]})
    elif shard['mode'] == 'hand':
        duties = sorted({e[0] for e in ENV})
        loads = [i for i, e in enumerate(ENV) if e[0] == duties[-1]]       # one ENV index per load level
        segs = 3
        for hand in itertools.product(duties, repeat=3):
            for li in loads:
                check_case(acc, shard['cfg'], (li,) * (segs * 3), cover, hand=hand)
        if tier != 'quick':
            for hand in itertools.product(duties, repeat=2):
                for li, lj in itertools.product(loads, repeat=2):
                    check_case(acc, shard['cfg'], (li,) * 4 + (lj,) * 4, cover, hand=hand)
        acc.sample({'cfg': shard['cfg'], 'mode': 'no motor control: duty cycle set by hand before the first run and between two continuations',
                    'duties': list(hand), 'segments_of_instants': segs})
    else:
        hz = 6 if tier == 'quick' else 10
        for ci, cfg in enumerate(shard['cfgs']):
            # thorough: 2 deviations over 8 instants on the first configuration of the two geometries that carry all
            # four topologies; 1 deviation over 10 instants everywhere else (quick: 1 over 6)
            rich = tier != 'quick' and ci == 0 and (cfg['alpha'], cfg['beta']) in ((20.0, 10.0), (14.5, 5.0)) and cfg['side'] in ('lock', 'free')
            b, h = (2, 8) if rich else (1, hz)
            for s in deviations(h, len(ENV), b):
                check_case(acc, cfg, s, cover)
            # continued runs: the held / moving state must carry over every split point
            for s in deviations(hz, len(ENV), 1):
                if sum(1 for x in s if x) == 1 and s.index(max(s)) <= 2:
                    for split in range(3, hz - 1):
                        check_case(acc, cfg, s, cover, split=split)
        acc.sample({'cfg': shard['cfgs'][0], 'mode': f'<= {b} deviations over {h} instants',
                    'env_sequence': [ENV[i] for i in s]})
    for k, v in cover.items():
        acc.coverage[('lock-automaton(was_held, sign D, sign w*, sign T_motor, held)', k)] += v
    return acc


def replay(case):
    acc = Acc()
    if case.get('kind') == 'case':
        check_case(acc, case['cfg'], tuple(case['env']), collections.Counter(), split=case.get('split'),
                   hand=tuple(case['hand']) if case.get('hand') else None)
        return acc.violations
    return run_shard(case['shard'], 'quick').violations
