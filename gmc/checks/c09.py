"""C09  Gear tooth force and stresses equal the documented formulas."""
import itertools
import math

from gearpy.mechanical_objects import HelicalGear, SpurGear, WormGear, WormWheel
from gearpy.units import Angle, InertiaMoment, Length, Stress, Torque
from gearpy.utils import add_gear_mating, add_worm_gear_mating

from gmc import ref, si
from gmc.core import Acc

ID = 'C09'
RULE = ('spur pairs with n_teeth = 10..520 EXHAUSTIVELY x role x torque sign; helical the same range x helix angle list (deg and rad); '
        'worm wheels x 4 pressure angles x both orientations x face width on both sides of 0.67 d_worm; modules / face widths / '
        'moduli from 3-value lists in 2 units; EVERY subset of the optional data of the gear and of its mate; oracle = documented '
        'formulas with an embedded copy of the tables; canon = (kind, teeth, geometry, data, role, torque); non-trivial = a stress is computed')
ASSUMPTIONS = ['the docstring\'s base-helix relation "atan(cos(alpha_t) cos(beta))" is read as the standard tan(beta_b) = tan(beta) cos(alpha_t)',
               'reference diameter = n_teeth x module', 'the worm gear\'s own tangential force value is not judged (only its flag)',
               'values compared at 1e-9 relative']
EXPLANATION = 'exhaustive teeth range and data subsets on the real gear objects; independent formulas and embedded tables'

J1 = InertiaMoment(1, 'gm^2')
MODS = [[1.0, 'mm'], [0.25, 'cm'], [0.004, 'm']]
WIDTHS = [[5.0, 'mm'], [1.2, 'cm'], [0.02, 'm']]
MODULI = [[200.0, 'GPa'], [70000.0, 'MPa'], [3.0, 'GPa']]
HELIX_Q = [0.0, 15.0, 30.0, 60.0, 89.9]
HELIX_T = [0.0, 5.0, 15.0, 20.0, 30.0, 45.0, 60.0, 80.0, 89.9]
ALPHAS = [14.5, 20.0, 25.0, 30.0]


def bounds(tier):
    return {'teeth': [10, 520], 'helix_deg': HELIX_Q if tier == 'quick' else HELIX_T, 'data_subsets': '8x8 (spur, helical), 4x2 (wheel, worm)',
            'modules': MODS, 'face_widths': WIDTHS, 'moduli': MODULI}


def L(q):
    return None if q is None else Length(q[0], q[1])


def St(q):
    return None if q is None else Stress(q[0], q[1])


def make_gear(kind, z, m, b, E, beta=None, name='g'):
    if kind == 'S':
        return SpurGear(name=name, n_teeth=z, inertia_moment=J1, module=L(m), face_width=L(b), elastic_modulus=St(E))
    return HelicalGear(name=name, n_teeth=z, inertia_moment=J1, helix_angle=Angle(beta[0], beta[1]),
                       module=L(m), face_width=L(b), elastic_modulus=St(E))


def mS(q, kind):
    return None if q is None else si.si(q[0], kind, q[1])


def check_pair(acc, kind, z, zm, role, Tsign, m, b, E, mm, bm, Em, beta=None, tag='full'):
    """Gear under test (z, m, b, E) mated with (zm, mm, bm, Em); role of the gear under test."""
    case = {'kind': 'pair', 'gk': kind, 'z': z, 'zm': zm, 'role': role, 'Tsign': Tsign,
            'm': m, 'b': b, 'E': E, 'mm': mm, 'bm': bm, 'Em': Em, 'beta': beta}
    try:
        g = make_gear(kind, z, m, b, E, beta, 'g')
        o = make_gear(kind, zm, mm, bm, Em, beta, 'o')
        if role == 'master':
            add_gear_mating(master=g, slave=o, efficiency=0.9)
        else:
            add_gear_mating(master=o, slave=g, efficiency=0.9)
    except Exception as ex:
        acc.violation(f'C09/build-error/{kind}', 'gear pair builds', case, {'exc': repr(ex)[:200]})
        return
    acc.transitions += 1
    flags = (g.tangential_force_is_computable, g.bending_stress_is_computable, g.contact_stress_is_computable)
    exp_flags = (m is not None, m is not None and b is not None, m is not None and b is not None and E is not None)
    if flags != exp_flags:
        acc.violation(f'C09/flags/{kind}', 'flags true exactly when the gear\'s own required data are present', case,
                      {'got': flags, 'expected': exp_flags})
        return
    acc.outcomes[(kind, exp_flags)] += 1
    if not exp_flags[0]:
        return
    T = Tsign * 0.37
    g.load_torque = Torque(T * 1000, 'mNm')
    g.driving_torque = Torque(-1.7 * T, 'Nm')
    Tref = T if role == 'master' else -1.7 * T
    msi = mS(m, 'Length')
    d = z * msi
    try:
        g.compute_tangential_force()
    except Exception as ex:
        acc.violation(f'C09/force/exception/{kind}', 'tangential force computable', case, {'exc': repr(ex)[:200]})
        return
    Ft = ref.tangential_force(Tref, d)
    got = si.q_si(g.tangential_force)
    if type(g.tangential_force).__name__ != 'Force' or not si.close(got, Ft, 1e-9):
        acc.violation(f'C09/force/{kind}/{role}', 'Ft = |reference torque| / (d/2): load torque for the master, driving torque for the slave', case,
                      {'got': got, 'ref': Ft})
        return
    if not exp_flags[1]:
        return
    bsi = mS(b, 'Length')
    if kind == 'S':
        Y = ref.lewis(z)
        alpha, bet = math.radians(20.0), 0.0
    else:
        bet = si.si(beta[0], 'Angle', beta[1])
        alpha, _, zv = ref.helical_geometry(z, bet)
        Y = ref.lewis(zv)
    try:
        lf = float(g.lewis_factor)
    except Exception as ex:
        lf = None
    if lf is None or not si.close(lf, Y, 1e-9):
        acc.violation(f'C09/lewis-factor/{kind}', 'Lewis factor = clamped linear interpolation of the table at z (virtual z for helical)', case,
                      {'got': lf, 'ref': Y})
        return
    g.compute_bending_stress()
    sb = ref.bending_spur(Ft, msi, bsi, Y)
    got = si.q_si(g.bending_stress)
    if type(g.bending_stress).__name__ != 'Stress' or not si.close(got, sb, 1e-9):
        acc.violation(f'C09/bending/{kind}', 'sigma_b = Ft / (m b Y)', case, {'got': got, 'ref': sb})
        return
    if not exp_flags[2]:
        return
    mate_ok = mm is not None and Em is not None
    try:
        g.compute_contact_stress()
        err = None
    except ValueError:
        err = 'ValueError'
    except Exception as ex:
        err = type(ex).__name__
    if not mate_ok:
        if err != 'ValueError':
            acc.violation(f'C09/contact/no-error/{kind}', 'contact stress whose mate lacks module or elastic modulus raises ValueError', case,
                          {'got': err, 'value': None if err else si.q_si(g.contact_stress)})
        acc.outcomes[(kind, 'contact-ValueError')] += 1
        return
    if err:
        acc.violation(f'C09/contact/exception/{kind}/{err}', 'contact stress computable', case, {})
        return
    sc = ref.contact_stress(Ft, bsi, d, zm * mS(mm, 'Length'), mS(E, 'Stress'), mS(Em, 'Stress'), alpha, bet)
    got = si.q_si(g.contact_stress)
    if not si.close(got, sc, 1e-9):
        acc.violation(f'C09/contact/{kind}', 'documented Hertz expression', case, {'got': got, 'ref': sc})


def check_wheel(acc, alpha_deg, beta_deg, z, wheel_is_master, Tsign, m, b, d_worm, tag='full', decoy=None, aunit='deg', wheel_beta=None):
    """decoy: None | 'with' | 'without' -- a SECOND worm gear (other diameter / none) is the wheel's neighbour on the
    other side through a fixed joint (two-stage worm reducer): the formulas must use the worm the wheel is MATED with."""
    case = {'kind': 'wheel', 'alpha': alpha_deg, 'beta': beta_deg, 'z': z, 'wheel_is_master': wheel_is_master,
            'Tsign': Tsign, 'm': m, 'b': b, 'd': d_worm, 'decoy': decoy, 'aunit': aunit, 'wheel_beta': wheel_beta}
    try:
        # aunit: the unit the two angles are written in (the tabulated pressure angle converted by gearpy itself)
        def A(deg):
            return Angle(deg, 'deg') if aunit == 'deg' else Angle(deg, 'deg').to(aunit)
        # wheel_beta: the wheel is cut with another helix angle than the worm's lead angle (the library accepts the pair);
        # the documented normal pitch takes the angle of the mating WORM gear
        wh = WormWheel(name='wh', n_teeth=z, inertia_moment=J1, helix_angle=A(beta_deg if wheel_beta is None else wheel_beta),
                       pressure_angle=A(alpha_deg), module=L(m), face_width=L(b))
        wg = WormGear(name='wg', n_starts=2, inertia_moment=J1, helix_angle=A(beta_deg),
                      pressure_angle=A(alpha_deg), reference_diameter=L(d_worm))
        # flags before mating: the gear's own data only
        pre = (wh.tangential_force_is_computable, wh.bending_stress_is_computable)
        if wheel_is_master:
            add_worm_gear_mating(master=wh, slave=wg, friction_coefficient=0.01)
        else:
            add_worm_gear_mating(master=wg, slave=wh, friction_coefficient=0.01)
        if decoy:
            from gearpy.utils import add_fixed_joint
            other = WormGear(name='decoy', n_starts=1, inertia_moment=J1, helix_angle=Angle(3.0, 'deg'),
                             pressure_angle=Angle(alpha_deg, 'deg'),
                             reference_diameter=Length(37.0, 'mm') if decoy == 'with' else None)
            if wheel_is_master:
                add_fixed_joint(master=other, slave=wh)      # the wheel is driven by another worm's shaft
            else:
                add_fixed_joint(master=wh, slave=other)      # the wheel's shaft carries the next stage's worm
    except Exception as ex:
        acc.violation('C09/wheel/build-error', 'worm pair builds', case, {'exc': repr(ex)[:200]})
        return
    sfx = '/second-worm-as-neighbour' if decoy else ''
    acc.transitions += 1
    exp_pre = (m is not None, m is not None and b is not None)
    if pre != exp_pre:
        acc.violation('C09/flags/wheel/unmated', 'flags from own data', case, {'got': pre, 'expected': exp_pre})
    flags = (wh.tangential_force_is_computable, wh.bending_stress_is_computable, wg.tangential_force_is_computable)
    exp = (m is not None, m is not None and b is not None and d_worm is not None, d_worm is not None)
    if flags != exp:
        acc.violation('C09/flags/wheel/mated' + sfx, 'wheel bending flag also needs the worm\'s reference diameter once mated; worm flag needs its diameter', case,
                      {'got': flags, 'expected': exp})
        return
    acc.outcomes[('wheel', exp)] += 1
    if not exp[0]:
        return
    T = Tsign * 0.8
    wh.load_torque = Torque(T, 'Nm')
    wh.driving_torque = Torque(2.5 * T, 'Nm')
    Tref = T if wheel_is_master else 2.5 * T
    msi = mS(m, 'Length')
    Ft = ref.tangential_force(Tref, z * msi)
    wh.compute_tangential_force()
    got = si.q_si(wh.tangential_force)
    if not si.close(got, Ft, 1e-9):
        acc.violation('C09/force/wheel', 'Ft = |reference torque| / (d/2)', case, {'got': got, 'ref': Ft})
        return
    if not exp[1]:
        return
    Y = ref.WORM_TABLE[alpha_deg][1]
    if not si.close(float(wh.lewis_factor), Y, 1e-12):
        acc.violation('C09/lewis-factor/wheel', 'pressure-angle factor from the 4-row table', case, {'got': float(wh.lewis_factor), 'ref': Y})
        return
    wh.compute_bending_stress()
    sb = ref.bending_wheel(Ft, mS(d_worm, 'Length'), math.radians(beta_deg), z, mS(b, 'Length'), Y)
    got = si.q_si(wh.bending_stress)
    side = 'b<0.67d' if mS(b, 'Length') < 0.67 * mS(d_worm, 'Length') else 'b>=0.67d'
    if not si.close(got, sb, 1e-9):
        acc.violation(f'C09/bending/wheel/{side}' + sfx, 'sigma_b = Ft / (p_n b_eff Y_alpha)', case, {'got': got, 'ref': sb})


# -- re-declared matings: the same gear computes against a sequence of mates ---------------------------------
MATES = [  # (teeth, module, face width, modulus) of the mate; the gear under test keeps full data
    (31, MODS[0], WIDTHS[1], MODULI[1]),
    (57, MODS[0], WIDTHS[0], MODULI[2]),
    (24, MODS[0], WIDTHS[0], None),          # lacks elastic modulus -> contact stress must raise
    (40, None, None, MODULI[0]),             # lacks module -> contact stress must raise
]


def check_remating(acc, kind, z, seq):
    """seq: list of (mate index, role of the gear under test).  After every declaration force and stresses are
    recomputed and must follow the formulas for the CURRENT mate and role."""
    beta = None if kind == 'S' else [20.0, 'deg']
    case = {'kind': 'remate', 'gk': kind, 'z': z, 'seq': [list(x) for x in seq]}
    m, b, E = MODS[0], WIDTHS[0], MODULI[0]
    g = make_gear(kind, z, m, b, E, beta, 'g')
    mates = [make_gear(kind, zm, mm, bm, Em, beta, f'mate{i}') for i, (zm, mm, bm, Em) in enumerate(MATES)]
    msi, bsi, Esi = mS(m, 'Length'), mS(b, 'Length'), mS(E, 'Stress')
    d = z * msi
    if kind == 'S':
        Y, alpha, bet = ref.lewis(z), math.radians(20.0), 0.0
    else:
        bet = si.si(beta[0], 'Angle', beta[1])
        alpha, _, zv = ref.helical_geometry(z, bet)
        Y = ref.lewis(zv)
    for step, (mi, role) in enumerate(seq):
        o = mates[mi]
        if role == 'master':
            add_gear_mating(master=g, slave=o, efficiency=0.9)
        else:
            add_gear_mating(master=o, slave=g, efficiency=0.8)
        acc.transitions += 1
        T = 0.21 * (step + 1)
        g.load_torque = Torque(T, 'Nm')
        g.driving_torque = Torque(-3.0 * T, 'Nm')
        Tref = T if role == 'master' else -3.0 * T
        Ft = ref.tangential_force(Tref, d)
        g.compute_tangential_force()
        g.compute_bending_stress()
        if not si.close(si.q_si(g.tangential_force), Ft, 1e-9):
            acc.violation(f'C09/remate/force/{kind}', 'force follows the current role after a re-declared mating', case,
                          {'step': step, 'got': si.q_si(g.tangential_force), 'ref': Ft})
            return
        if not si.close(si.q_si(g.bending_stress), ref.bending_spur(Ft, msi, bsi, Y), 1e-9):
            acc.violation(f'C09/remate/bending/{kind}', 'bending stress follows the current force', case, {'step': step})
            return
        zm, mm, bm, Em = MATES[mi]
        try:
            g.compute_contact_stress()
            err = None
        except ValueError:
            err = 'ValueError'
        if mm is None or Em is None:
            if err != 'ValueError':
                acc.violation(f'C09/remate/contact/no-error/{kind}', 'contact stress whose CURRENT mate lacks module or elastic modulus raises ValueError', case,
                              {'step': step, 'value': si.q_si(g.contact_stress)})
                return
            continue
        if err:
            acc.violation(f'C09/remate/contact/exception/{kind}', 'contact stress computable with the current mate', case, {'step': step})
            return
        sc = ref.contact_stress(Ft, bsi, d, zm * mS(mm, 'Length'), Esi, mS(Em, 'Stress'), alpha, bet)
        if not si.close(si.q_si(g.contact_stress), sc, 1e-9):
            acc.violation(f'C09/remate/contact/{kind}', 'Hertz expression in the diameters and moduli of the CURRENT pair', case,
                          {'step': step, 'got': si.q_si(g.contact_stress), 'ref': sc, 'mate': mi, 'role': role})
            return
    acc.outcomes[('remate', kind, len(seq))] += 1


def check_simulated(acc, variant):
    """The values RECORDED by a simulation equal the formulas evaluated on the recorded torques at every instant,
    including the instants at which a self-locking chain is held (the torques keep changing there)."""
    from gmc import sim, menu
    J = [2.0, 'gm^2']
    full = {'m': [1.0, 'mm'], 'b': [5.0, 'mm'], 'E': [200.0, 'GPa']}
    els = [dict(menu.MOTOR_CUR),
           {'k': 'Wg', 'starts': 2, 'J': J, 'beta': [10.0, 'deg'], 'alpha': [20.0, 'deg'], 'd': [10.0, 'mm']},
           {'k': 'Ww', 'z': 30, 'J': J, 'beta': [10.0, 'deg'], 'alpha': [20.0, 'deg'], 'm': [1.0, 'mm'], 'b': [4.0, 'mm']},
           dict({'k': 'S', 'z': 12, 'J': J}, **full), dict({'k': 'S', 'z': 30, 'J': J}, **dict(full, b=[3.0, 'mm']))]
    links = [{'t': 'J'}, {'t': 'W', 'f': 0.3 if variant == 'locking' else 0.1}, {'t': 'J'}, {'t': 'G', 'eta': 0.9}]
    spec = {'elements': els, 'links': links, 'init': {'theta': [0.0, 'rad'], 'w': [0.0, 'rad/s']}}
    st = menu.stall_at_output(spec)
    spec['load'] = ['mix', 0.2 * st, 0.0, 0.0, 1.5 * st]          # rises in time: the locking variant ends held under a changing load
    case = {'kind': 'simulated', 'variant': variant}
    m, info = sim.run_schedule(spec, [('run', [0.125, 'sec'], [2.5, 'sec'], [1, 1, 1, 0.6, 0, 0, 1, 1, 1, 1, 1, 1, 1, 1, 1, 1, 1, 1, 1, 1, 1], None)])
    if info['error']:
        acc.violation('C09/simulated/run-error', 'simulation runs', case, {'error': info['error']})
        return
    acc.executions += 1
    obs = m.observe()
    nk = len(obs['time'])
    d_worm, beta, alpha = 0.010, math.radians(10.0), math.radians(20.0)
    for k in range(nk):
        acc.transitions += 1
        acc.state(('simulated', variant, k))
        wh, p, g = obs['el'][2], obs['el'][3], obs['el'][4]
        Ft = ref.tangential_force(wh['driving torque'][k], 30 * 0.001)          # wheel: slave of the worm -> driving torque
        exp = {('Ww', 'tangential force'): (wh['tangential force'][k], Ft),
               ('Ww', 'bending stress'): (wh['bending stress'][k], ref.bending_wheel(Ft, d_worm, beta, 30, 0.004, ref.WORM_TABLE[20.0][1]))}
        Fp = ref.tangential_force(p['load torque'][k], 12 * 0.001)            # pinion: master -> load torque
        Fg = ref.tangential_force(g['driving torque'][k], 30 * 0.001)         # wheel gear: slave -> driving torque
        exp[('S3', 'tangential force')] = (p['tangential force'][k], Fp)
        exp[('S3', 'bending stress')] = (p['bending stress'][k], ref.bending_spur(Fp, 0.001, 0.005, ref.lewis(12)))
        exp[('S3', 'contact stress')] = (p['contact stress'][k], ref.contact_stress(Fp, 0.005, 0.012, 0.030, 200e9, 200e9, alpha))
        exp[('S4', 'tangential force')] = (g['tangential force'][k], Fg)
        exp[('S4', 'bending stress')] = (g['bending stress'][k], ref.bending_spur(Fg, 0.001, 0.003, ref.lewis(30)))
        exp[('S4', 'contact stress')] = (g['contact stress'][k], ref.contact_stress(Fg, 0.003, 0.030, 0.012, 200e9, 200e9, alpha))
        held = obs['el'][0]['angular speed'][k] == 0.0 and k > 0
        for (el, var), (got, want) in exp.items():
            if got is None or not si.close(got, want, 1e-9, 1e-12):
                acc.violation(f'C09/simulated/{var}/{"held" if held else "moving"}',
                              'the recorded force / stress equals the documented formula on the recorded torques at every instant', case,
                              {'instant': k, 'element': el, 'got': got, 'ref': want})
                return
    acc.outcomes[('simulated', variant, sum(1 for k in range(1, nk) if obs['el'][0]['angular speed'][k] == 0.0))] += 1


def shards(tier):
    out = [{'mode': 'simulated', 'variant': v} for v in ('locking', 'free')]
    for lo in range(10, 521, 32):
        out.append({'mode': 'spur', 'z': [lo, min(lo + 32, 521)]})
        out.append({'mode': 'helical', 'z': [lo, min(lo + 32, 521)]})
    out.append({'mode': 'subsets', 'gk': 'S'})
    out.append({'mode': 'subsets', 'gk': 'H'})
    out.append({'mode': 'params', 'gk': 'S'})
    out.append({'mode': 'params', 'gk': 'H'})
    out.append({'mode': 'wheel'})
    out.append({'mode': 'remate', 'gk': 'S'})
    out.append({'mode': 'remate', 'gk': 'H'})
    return out


def run_shard(shard, tier):
    acc = Acc()
    full = (MODS[0], WIDTHS[0], MODULI[0])
    mode = shard['mode']
    if mode in ('spur', 'helical'):
        kind = 'S' if mode == 'spur' else 'H'
        helixes = [None] if kind == 'S' else [[h, 'deg'] for h in (HELIX_Q if tier == 'quick' else HELIX_T)] + \
            [[math.radians(20.0), 'rad'], [0.5, 'rad']]
        for z in range(*shard['z']):
            for beta in helixes:
                for role in ('master', 'slave'):
                    for Tsign in (1, -1):
                        # the mate's face width is larger for even, smaller for odd teeth numbers
                        bm = WIDTHS[1] if z % 2 == 0 else [2.0, 'mm']
                        check_pair(acc, kind, z, 10 + (z * 7) % 90, role, Tsign, *full, MODS[0], bm, MODULI[1], beta=beta)
                        acc.nstates += 1
        acc.sample({'kind': mode, 'teeth': shard['z'], 'helix': helixes[-1], 'roles': ['master', 'slave'], 'data': 'module, face width, elastic modulus on both'})
    elif mode == 'subsets':
        kind = shard['gk']
        beta = None if kind == 'S' else [20.0, 'deg']
        opts = list(itertools.product([False, True], repeat=3))
        for z in (10, 17, 23, 100, 501):
            for fa in opts:
                for fb in opts:
                    for role in ('master', 'slave'):
                        a = (MODS[0] if fa[0] else None, WIDTHS[0] if fa[1] else None, MODULI[0] if fa[2] else None)
                        o = (MODS[0] if fb[0] else None, WIDTHS[1] if fb[1] else None, MODULI[1] if fb[2] else None)
                        check_pair(acc, kind, z, 31, role, 1, *a, *o, beta=beta, tag='subset')
                        acc.nstates += 1
        acc.sample({'kind': kind, 'mode': 'every subset of optional data of gear and mate', 'teeth': [10, 17, 23, 100, 501]})
    elif mode == 'params':
        kind = shard['gk']
        beta = None if kind == 'S' else [30.0, 'deg']
        for z in (12, 37, 150):
            for m in MODS:
                # the mate must have the same physical module
                for b in WIDTHS:
                    for E in MODULI:
                        for Em in MODULI:
                            for role in ('master', 'slave'):
                                mm = m
                                check_pair(acc, kind, z, 44, role, -1, m, b, E, mm, WIDTHS[2], Em, beta=beta, tag='params')
                                acc.nstates += 1
        acc.sample({'kind': kind, 'mode': 'modules x face widths x moduli in mixed units'})
    elif mode == 'simulated':
        check_simulated(acc, shard['variant'])
        acc.sample({'mode': 'recorded values of a simulation vs formulas on the recorded torques', 'variant': shard['variant']})
    elif mode == 'remate':
        steps = [(mi, role) for mi in range(len(MATES)) for role in ('master', 'slave')]
        depth = 2 if tier == 'quick' else 3
        for z in (12, 37):
            for dd in range(1, depth + 1):
                for seq in itertools.product(steps, repeat=dd):
                    check_remating(acc, shard['gk'], z, seq)
                    acc.nstates += 1
        acc.sample({'kind': shard['gk'], 'mode': 'all sequences of re-declared matings', 'depth': depth, 'mates': len(MATES), 'roles': 2})
    else:
        for a in ALPHAS:
            for beta in (5.0, 10.0, ref.WORM_TABLE[a][0]):
                for z in (10, 30, 77):
                    for wm in (False, True):
                        for Tsign in (1, -1):
                            for m in (None, MODS[0], MODS[1]):
                                for b in (None, [3.0, 'mm'], [30.0, 'mm']):
                                    for d in (None, [10.0, 'mm'], [2.0, 'cm']):
                                        check_wheel(acc, a, beta, z, wm, Tsign, m, b, d)
                                        acc.nstates += 1
                                        if Tsign == 1 and z == 30:
                                            for decoy in ('with', 'without'):
                                                check_wheel(acc, a, beta, z, wm, Tsign, m, b, d, decoy=decoy)
                                                acc.nstates += 1
                                        if Tsign == 1 and z == 10 and m is not None and b is not None and d is not None and beta < ref.WORM_TABLE[a][0]:
                                            check_wheel(acc, a, beta, z, wm, Tsign, m, b, d, wheel_beta=min(beta + 3.0, ref.WORM_TABLE[a][0]))
                                            acc.nstates += 1
                                        if Tsign == -1 and m is not None and b is not None and d is not None:
                                            for au in ('rad', 'arcmin', 'arcsec', 'rot'):
                                                check_wheel(acc, a, beta, z, wm, Tsign, m, b, d, aunit=au)
                                                acc.nstates += 1
        acc.sample({'kind': 'worm wheel', 'pressure_angles': ALPHAS, 'orientations': 2, 'face_width_vs_0.67d': 'both sides',
                    'data_subsets': 'module, face width (wheel) x reference diameter (worm)'})
    acc.cases += acc.nstates
    acc.executions += acc.nstates
    return acc


def replay(case):
    acc = Acc()
    if case.get('kind') == 'pair':
        check_pair(acc, case['gk'], case['z'], case['zm'], case['role'], case['Tsign'], case['m'], case['b'], case['E'],
                   case['mm'], case['bm'], case['Em'], beta=case['beta'])
    elif case.get('kind') == 'simulated':
        check_simulated(acc, case['variant'])
    elif case.get('kind') == 'remate':
        check_remating(acc, case['gk'], case['z'], [tuple(x) for x in case['seq']])
    elif case.get('kind') == 'wheel':
        check_wheel(acc, case['alpha'], case['beta'], case['z'], case['wheel_is_master'], case['Tsign'], case['m'], case['b'], case['d'], decoy=case.get('decoy'), aunit=case.get('aunit', 'deg'), wheel_beta=case.get('wheel_beta'))
    else:
        return run_shard(case['shard'], 'quick').violations
    return acc.violations
