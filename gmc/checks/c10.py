"""C10  Declaring a mating or joint sets a consistent, validated relation."""
import itertools
import math

from gearpy.mechanical_objects import (DCMotor, Flywheel, HelicalGear, MatingMaster, MatingSlave, SpurGear,
                                       WormGear, WormWheel)
from gearpy.units import Angle, AngularSpeed, InertiaMoment, Length, Torque
from gearpy.utils import add_fixed_joint, add_gear_mating, add_worm_gear_mating

from gmc import si, ref
from gmc.core import Acc

ID = 'C10'
RULE = ('(a) one step: every ordered pair of the element universe (motor, flywheel, 3 spur, 3 helical, worm gears and '
        'wheels for 4 pressure angles x 4 helix angles x {deg, rad}) x the three declaration functions x an '
        'efficiency / friction menu in and out of range; (b) histories: BFS over ALL sequences of declaration calls '
        '(including failing ones) to the depth on a 7-element universe, states deduplicated on the relation '
        'attributes of all elements; canon = relation attributes of every element; non-trivial = the call was accepted')
ASSUMPTIONS = ['where the statement is silent (wheel mated with a helical gear as gears; worm and wheel with different helix angles; '
               'efficiency left on the slave of a joint) either outcome is accepted and only the post-condition of the outcome taken is checked',
               'self-locking flag compared only when |f - cos(alpha) tan(beta)| > 1e-9',
               'on any raised exception every public attribute of both elements must be unchanged']
EXPLANATION = 'exhaustive pairs x parameters one-step, plus explicit-state BFS over declaration histories on the real functions'

J1 = InertiaMoment(1, 'gm^2')
ALPHAS = [14.5, 20.0, 25.0, 30.0]
MAXH = {14.5: 16.0, 20.0: 25.0, 25.0: 35.0, 30.0: 45.0}
FUNCS = ['gear', 'worm', 'joint']


def bounds(tier):
    return {'universe_one_step': len(universe()), 'efficiencies': EFFS, 'frictions': 'per worm: -0.1, 0, 0.5f*, 0.98f*, 1.02f*, min(1,2f*), 1, 1.1',
            'history_depth': 3 if tier == 'quick' else 4, 'history_universe': 7, 'history_events': len(history_events())}


# -- universe: element descriptions (plain data) --------------------------------
def universe():
    u = [('M',), ('F',), ('S', 20, 1.0), ('S', 30, 2.0), ('S', 15, None),
         ('S', 22, 0.1, 'cm'), ('S', 26, 1.0, 'cm'), ('S', 28, 0.002, 'm'),      # the same and other modules written in other units
         ('H', 20, 20.0, 'deg'), ('H', 25, math.radians(20.0), 'rad'), ('H', 30, 30.0, 'deg'),
         ('H', 21, 20.0, 'deg', 1.0), ('H', 27, 20.0, 'deg', 2.0), ('H', 33, 20.0, 'deg', 0.1, 'cm')]   # helical gears with modules
    for a in ALPHAS:
        for b in (0.0, 5.0, 15.0, MAXH[a]):
            for unit in ('deg', 'rad'):
                bv = b if unit == 'deg' else math.radians(b)
                u.append(('Wg', 2, a, bv, unit))
                u.append(('Ww', 30, a, bv, unit))
    return u


def build(desc, name, subclass=False):
    if subclass:
        # instances of EMPTY user subclasses (class MyWormWheel(WormWheel): pass): same verdicts and post-conditions
        from gmc.sim import user_subclass
        g = globals()
        saved = {n: g[n] for n in ('DCMotor', 'Flywheel', 'SpurGear', 'HelicalGear', 'WormGear', 'WormWheel')}
        try:
            for n, c in saved.items():
                g[n] = user_subclass(c)
            return build(desc, name)
        finally:
            g.update(saved)
    k = desc[0]
    if k == 'M':
        return DCMotor(name=name, inertia_moment=J1, no_load_speed=AngularSpeed(1000, 'rpm'), maximum_torque=Torque(1, 'Nm'))
    if k == 'F':
        return Flywheel(name=name, inertia_moment=J1)
    if k == 'S':
        return SpurGear(name=name, n_teeth=desc[1], inertia_moment=J1,
                        module=None if desc[2] is None else Length(desc[2], desc[3] if len(desc) > 3 else 'mm'))
    if k == 'H':
        return HelicalGear(name=name, n_teeth=desc[1], inertia_moment=J1, helix_angle=Angle(desc[2], desc[3]),
                           module=None if len(desc) < 5 else Length(desc[4], desc[5] if len(desc) > 5 else 'mm'))
    if k == 'Wg':
        return WormGear(name=name, n_starts=desc[1], inertia_moment=J1, pressure_angle=Angle(desc[2], 'deg'),
                        helix_angle=Angle(desc[3], desc[4]))
    if k == 'Ww':
        return WormWheel(name=name, n_teeth=desc[1], inertia_moment=J1, pressure_angle=Angle(desc[2], 'deg'),
                         helix_angle=Angle(desc[3], desc[4]))
    raise ValueError(k)


def helix_rad(desc):
    if desc[0] == 'H':
        return si.si(desc[2], 'Angle', desc[3])
    return si.si(desc[3], 'Angle', desc[4])


# -- snapshot of public attributes ----------------------------------------------
REL_ATTRS = ['drives', 'driven_by', 'mating_role', 'master_gear_ratio', 'master_gear_efficiency', 'self_locking']


def public_snapshot(obj, ids):
    out = {}
    for name in dir(type(obj)):
        if name.startswith('_'):
            continue
        attr = getattr(type(obj), name, None)
        if not isinstance(attr, property):
            continue
        try:
            v = getattr(obj, name)
        except Exception as e:
            out[name] = ('raises', type(e).__name__)
            continue
        out[name] = freeze(v, ids)
    return out


def freeze(v, ids):
    if v is None or isinstance(v, (bool, int, float, str)):
        return v if not isinstance(v, float) else v.hex()
    if id(v) in ids:
        return ('element', ids[id(v)])
    if isinstance(v, type):
        return ('class', v.__name__)
    if hasattr(v, 'value') and hasattr(v, 'unit'):
        return (type(v).__name__, float(v.value).hex(), v.unit)
    if isinstance(v, dict):
        return ('dict', tuple(sorted((k, len(x) if hasattr(x, '__len__') else str(x)) for k, x in v.items())))
    if callable(v):
        return ('callable', id(v))
    return ('obj', type(v).__name__)


# -- reference decisions -----------------------------------------------------------
def is_gear(d):
    return d[0] in ('S', 'H', 'Ww')


def ref_gear(da, db, same, eff):
    """-> ('accept'|'reject'|'either', details)"""
    if not is_gear(da) or not is_gear(db):
        return 'reject'
    if same:
        return 'reject'
    if not isinstance(eff, (int, float)) or isinstance(eff, bool) and False:
        return 'reject'
    if not 0 <= eff <= 1:
        return 'reject'
    def module_si(d):
        if d[0] == 'H':
            return None if len(d) < 5 else si.si(d[4], 'Length', d[5] if len(d) > 5 else 'mm')
        if d[0] != 'S' or d[2] is None:
            return None
        return si.si(d[2], 'Length', d[3] if len(d) > 3 else 'mm')
    ma, mb = module_si(da), module_si(db)
    if ma is not None and mb is not None and abs(ma - mb) > 1e-9 * max(ma, mb):
        return 'reject'
    ha, hb = da[0] in ('H', 'Ww'), db[0] in ('H', 'Ww')
    if ha != hb:
        return 'reject'                       # spur with helical
    if ha and hb:
        a, b = helix_rad(da), helix_rad(db)
        if abs(a - b) > 1e-9:
            return 'reject'
        if da[0] == 'Ww' or db[0] == 'Ww':
            return 'either'                   # a worm wheel mated as a helical gear: statement silent
    return 'accept'


def ref_worm(da, db, same, f):
    kinds = {da[0], db[0]}
    if kinds != {'Wg', 'Ww'} or da[0] == db[0]:
        return 'reject', None
    if not isinstance(f, (int, float)):
        return 'reject', None
    if not 0 <= f <= 1:
        return 'reject', None
    if da[2] != db[2]:
        return 'reject', None                 # different pressure angle
    worm = da if da[0] == 'Wg' else db
    alpha = math.radians(worm[2])
    beta = helix_rad(worm)
    if abs(helix_rad(da) - helix_rad(db)) > 1e-9:
        return 'either', None                 # worm and wheel with different helix angles: statement silent
    if beta == 0.0:
        return 'reject', None                 # formula undefined: cannot yield an efficiency in [0,1]
    eta = ref.worm_efficiency(alpha, beta, f, da[0] == 'Wg')
    info = {'eta': eta, 'margin': ref.worm_self_locking_margin(alpha, beta, f),
            'sl': ref.worm_self_locking(alpha, beta, f)}
    if eta > 1 + 1e-12 or eta < -1e-12:
        return 'reject', info
    if eta > 1 - 1e-12 or eta < 1e-12:
        return 'either', info                 # within rounding of the range limit
    return 'accept', info


def ref_joint(da, db, same):
    if db[0] == 'M' or same:
        return 'reject'
    return 'accept'


def unwrap(param):
    """['np', x] -> numpy.float64(x): a float subclass users get from any numpy computation"""
    if isinstance(param, (list, tuple)) and len(param) == 2 and param[0] == 'np':
        import numpy
        return numpy.float64(param[1])
    if isinstance(param, (list, tuple)) and param[0] == 'nan':
        return float('nan')
    if isinstance(param, (list, tuple)) and param[0] == 'exotic':
        # real numbers that are neither float nor int: the library may take them or refuse them, but never half-way
        import decimal
        import fractions
        import numpy
        return {'fraction': lambda: fractions.Fraction(param[2]).limit_denominator(1000), 'float32': lambda: numpy.float32(param[2]),
                'int64': lambda: numpy.int64(param[2]), 'decimal': lambda: decimal.Decimal(str(param[2]))}[param[1]]()
    return param


def call(func, a, b, param):
    param = unwrap(param)
    try:
        if func == 'gear':
            add_gear_mating(master=a, slave=b, efficiency=param)
        elif func == 'worm':
            add_worm_gear_mating(master=a, slave=b, friction_coefficient=param)
        else:
            add_fixed_joint(master=a, slave=b)
        return 'ok'
    except Exception as e:
        return type(e).__name__


def teeth(d):
    return d[1]


def judge(acc, case, func, da, db, a, b, param, before_a, before_b, ids, outcome, sigpfx):
    """Post-condition of one declaration call on elements a, b."""
    numpy_param = isinstance(param, (list, tuple))
    tag = param[0] if numpy_param else None
    exotic = param[1] if tag == 'exotic' else None
    param = float(unwrap(param)) if numpy_param else param
    if numpy_param:
        sigpfx = sigpfx + ('/numpy-float' if tag == 'np' else ('/nan' if tag == 'nan' else f'/real-number-{exotic}'))
    same = a is b
    info = None
    if func == 'gear':
        dec = ref_gear(da, db, same, param)
    elif func == 'worm':
        dec, info = ref_worm(da, db, same, param)
    else:
        dec = ref_joint(da, db, same)
    if exotic and dec == 'accept':
        dec = 'either'
    pair = f'{da[0]}>{db[0]}'
    acc.outcomes[(func, dec, 'ok' if outcome == 'ok' else 'raised')] += 1
    if outcome != 'ok':
        if dec == 'accept':
            acc.violation(f'{sigpfx}/rejected-valid/{func}/{pair}', 'a compatible pair is accepted', case, {'exception': outcome})
        # a rejected call leaves both elements unmodified
        after_a, after_b = public_snapshot(a, ids), public_snapshot(b, ids)
        changed = sorted([f'master.{k}' for k in before_a if before_a[k] != after_a.get(k)] +
                         [f'slave.{k}' for k in before_b if before_b[k] != after_b.get(k)])
        if changed:
            why = 'other'
            if func == 'worm' and {da[0], db[0]} == {'Wg', 'Ww'}:
                if info and not (0 <= info['eta'] <= 1):
                    why = 'worm-efficiency-out-of-range'
                elif helix_rad(da) == 0.0 or helix_rad(db) == 0.0:
                    why = 'worm-helix-zero'
                elif info is None and abs(helix_rad(da) - helix_rad(db)) > 1e-9:
                    why = 'worm-helix-mismatch'
            acc.violation(f'{sigpfx}/rejected-call-mutated/{func}/{why}', 'a rejected call leaves both elements unmodified', case,
                          {'exception': outcome, 'changed': changed})
        return False
    if dec == 'reject':
        acc.violation(f'{sigpfx}/accepted-invalid/{func}/{pair}', 'incompatible pairs are rejected', case,
                      {'param': param, 'info': info})
        return True
    # accepted: links, roles, ratio, efficiency, flag
    bad = {}
    if a.drives is not b:
        bad['master.drives'] = str(a.drives)
    if b.driven_by is not a:
        bad['slave.driven_by'] = str(b.driven_by)
    if func != 'joint':
        if a.mating_role is not MatingMaster:
            bad['master.mating_role'] = str(a.mating_role)
        if b.mating_role is not MatingSlave:
            bad['slave.mating_role'] = str(b.mating_role)
    if func == 'gear':
        r, e = teeth(db) / teeth(da), param
    elif func == 'worm':
        r = (db[1] / da[1])
        e = info['eta'] if info else None
    else:
        r, e = 1.0, None
    if func == 'joint':
        if b.master_gear_ratio != 1.0 or not isinstance(b.master_gear_ratio, float):
            bad['slave.master_gear_ratio'] = b.master_gear_ratio
    elif not si.close(b.master_gear_ratio, r, 1e-12):
        bad['slave.master_gear_ratio'] = (b.master_gear_ratio, r)
    if not (b.master_gear_ratio is not None and b.master_gear_ratio > 0):
        bad['ratio>0'] = b.master_gear_ratio
    if e is not None:
        if not si.close(b.master_gear_efficiency, e, 1e-9, 1e-12):
            bad['slave.master_gear_efficiency'] = (b.master_gear_efficiency, e)
    if not (0 <= b.master_gear_efficiency <= 1):
        bad['efficiency in [0,1]'] = b.master_gear_efficiency
    if func == 'worm':
        worm = a if da[0] == 'Wg' else b
        if info and abs(info['margin']) > 1e-9 and worm.self_locking is not info['sl']:
            bad['worm.self_locking'] = (worm.self_locking, info['sl'])
    if bad:
        acc.violation(f'{sigpfx}/postcondition/{func}/{"+".join(sorted(k.split(".")[-1] for k in bad))}',
                      'accepted relation: mutual links, roles, ratio, efficiency, self-locking flag', case, bad)
    # frame: the relation the MASTER has with its own driver (link, ratio, efficiency) and the link of the SLAVE to what
    # it drives are not part of this declaration; only a worm mating says anything about a self-locking flag
    after_a, after_b = public_snapshot(a, ids), public_snapshot(b, ids)
    frame = {}
    if not same_obj(a, b):
        for k in ('driven_by', 'master_gear_ratio', 'master_gear_efficiency'):
            if k in before_a and before_a[k] != after_a.get(k):
                frame[f'master.{k}'] = (before_a[k], after_a.get(k))
        if 'drives' in before_b and before_b['drives'] != after_b.get('drives'):
            frame['slave.drives'] = (before_b['drives'], after_b.get('drives'))
        if func != 'worm':
            for who, bef, aft in (('master', before_a, after_a), ('slave', before_b, after_b)):
                # (never flagged and flagged False are the same statement: only a flag that changes its truth value counts)
                if 'self_locking' in bef and bool(bef['self_locking']) != bool(aft.get('self_locking')):
                    frame[f'{who}.self_locking'] = (bef['self_locking'], aft.get('self_locking'))
    if frame:
        acc.violation(f'{sigpfx}/frame/{func}/{"+".join(sorted(frame))}',
                      'a declaration sets the relation between its two elements and nothing else they carry', case,
                      {k: [str(x) for x in v] for k, v in frame.items()})
    return True


def same_obj(a, b):
    return a is b


EFFS = [-0.1, 0, 0.5, 1, 1.1, '0.9', ['np', 0.9], ['nan'], ['exotic', 'fraction', 0.9], ['exotic', 'float32', 0.5], ['exotic', 'int64', 1], ['exotic', 'decimal', 0.5]]


def frictions(desc_worm):
    alpha, beta = math.radians(desc_worm[2]), helix_rad(desc_worm)
    fs = math.cos(alpha) * math.tan(beta)
    return [-0.1, 0, 0.5 * fs, 0.98 * fs, 1.02 * fs, min(1.0, 2 * fs), 1, 1.1, ['np', 0.5 * fs], ['np', min(1.0, 1.5 * fs)], ['nan'], ['exotic', 'fraction', round(0.5 * fs, 3)], ['exotic', 'float32', 0.5 * fs]]


def check_one_step(acc, ia, ib, func, param, U, subclass=False):
    da, db = U[ia], U[ib]
    same = ia == ib
    a = build(da, 'a', subclass)
    b = a if same else build(db, 'b', subclass)
    ids = {id(a): 'master', id(b): 'slave'}
    before_a, before_b = public_snapshot(a, ids), public_snapshot(b, ids)
    case = {'kind': 'step', 'a': ia, 'b': ib, 'func': func, 'param': param, 'subclass': subclass}
    acc.transitions += 1
    outcome = call(func, a, b, param)
    judge(acc, case, func, da, db, a, b, param, before_a, before_b, ids, outcome, 'C10/step' + ('/user-subclasses' if subclass else ''))


def check_dropped_master(acc, ia, ib, func, param, U):
    """The user keeps only the SLAVE (a helper that builds a stage and returns its output gear): the mutual link must still
    be there afterwards -- slave.driven_by is the master it was declared with, and that master drives the slave."""
    import gc
    if ia == ib:
        return
    case = {'kind': 'dropped', 'a': ia, 'b': ib, 'func': func, 'param': param}

    def stage():
        a = build(U[ia], 'a')
        b = build(U[ib], 'b')
        return b if call(func, a, b, param) == 'ok' else None
    b = stage()
    if b is None:
        return
    gc.collect()
    acc.transitions += 1
    up = b.driven_by
    if up is None or getattr(up, 'name', None) != 'a' or getattr(up, 'drives', None) is not b:
        acc.violation(f'C10/step/link-lost-when-master-dropped/{func}', 'the two elements are linked mutually', case,
                      {'driven_by': str(up), 'drives_back': str(getattr(up, 'drives', None))})
        return
    # a deep copy of the stage is a stage again: the copied slave's driver is the copied master
    import copy
    try:
        b2 = copy.deepcopy(b)
    except Exception:
        return                      # (copying elements is not something the property speaks about)
    up2 = b2.driven_by
    if up2 is None or up2 is up or getattr(up2, 'drives', None) is not b2:
        acc.violation(f'C10/step/link-not-copied-consistently/{func}', 'the two elements are linked mutually', case,
                      {'copied_driver_is_original': up2 is up, 'copied_driver': str(up2)})
    acc.outcomes[('dropped-master', func, 'linked')] += 1


# -- histories ---------------------------------------------------------------------
HU = [('M',), ('F',), ('S', 20, 1.0), ('S', 30, 1.0), ('H', 20, 20.0, 'deg'),
      ('Wg', 2, 20.0, 10.0, 'deg'), ('Ww', 30, 20.0, 10.0, 'deg')]


def history_events():
    ev = []
    n = len(HU)
    for i in range(n):
        for j in range(n):
            ev.append(('joint', i, j, None))
    gears = [1, 2, 3, 4, 6]
    for i in gears:
        for j in gears:
            for e in (0.9, 1.5):
                ev.append(('gear', i, j, e))
    worms = [2, 5, 6]
    for i in worms:
        for j in worms:
            for f in (0.1, 0.3, 0.9):
                ev.append(('worm', i, j, f))
    return ev


def rel_state(objs):
    ids = {id(o): i for i, o in enumerate(objs)}
    out = []
    for o in objs:
        row = []
        for name in REL_ATTRS:
            if hasattr(type(o), name):
                row.append(freeze(getattr(o, name), ids))
            else:
                row.append('-')
        out.append(tuple(row))
    return tuple(out)


def replay_history(hist, acc=None, judge_last=False):
    """Fresh objects, replay the history with plain calls; optionally judge every call."""
    objs = [build(d, f'e{i}') for i, d in enumerate(HU)]
    events = history_events()
    for step, ei in enumerate(hist):
        func, i, j, param = events[ei]
        a, b = objs[i], objs[j]
        if acc is not None and (not judge_last or step == len(hist) - 1):
            ids = {id(o): k for k, o in enumerate(objs)}
            ba, bb = public_snapshot(a, ids), public_snapshot(b, ids)
            outcome = call(func, a, b, param)
            acc.transitions += 1
            judge(acc, {'kind': 'hist', 'history': list(hist)}, func, HU[i], HU[j], a, b, param, ba, bb, ids,
                  outcome, 'C10/history')
        else:
            call(func, a, b, param)
    return objs


def bfs_levels(depth, acc=None):
    """Standard BFS with deduplication on the relation state of all elements.
    Returns the list of levels; level d = histories (one per distinct new state)
    of length d.  With `acc`, every transition taken is judged."""
    events = history_events()
    objs = replay_history([])
    seen = {rel_state(objs)}
    if acc is not None:
        acc.state(rel_state(objs))
    levels = [[[]]]
    for d in range(depth):
        nxt = []
        for hist in levels[-1]:
            for ei in range(len(events)):
                h2 = hist + [ei]
                objs = replay_history(h2, acc, judge_last=True)
                if acc is not None:
                    acc.executions += 1
                k = rel_state(objs)
                if k not in seen:
                    seen.add(k)
                    if acc is not None:
                        acc.state(k)
                    nxt.append(h2)
        levels.append(nxt)
    return levels


def expand_last(acc, hist):
    """All one-event extensions of a frontier state, each judged."""
    events = history_events()
    for ei in range(len(events)):
        objs = replay_history(hist + [ei], acc, judge_last=True)
        acc.executions += 1
        acc.state(rel_state(objs))


def shards(tier):
    U = universe()
    out = [{'mode': 'step', 'a': i} for i in range(len(U))]
    depth = 3 if tier == 'quick' else 4
    out.append({'mode': 'hist-prefix', 'depth': depth - 1})
    frontier = bfs_levels(depth - 1)[-1]
    CH = 8
    for i in range(0, len(frontier), CH):
        out.append({'mode': 'hist-last', 'hists': frontier[i:i + CH], 'depth': depth})
    return out


def run_shard(shard, tier):
    acc = Acc()
    if shard['mode'] == 'step':
        U = universe()
        ia = shard['a']
        for ib in range(len(U)):
            for e in EFFS:
                check_one_step(acc, ia, ib, 'gear', e, U)
                acc.nstates += 1
            check_one_step(acc, ia, ib, 'joint', None, U)
            acc.nstates += 1
            check_dropped_master(acc, ia, ib, 'joint', None, U)
            check_dropped_master(acc, ia, ib, 'gear', 0.9, U)
            check_one_step(acc, ia, ib, 'joint', None, U, subclass=True)
            check_one_step(acc, ia, ib, 'gear', 0.9, U, subclass=True)
            worm = U[ia] if U[ia][0] == 'Wg' else (U[ib] if U[ib][0] == 'Wg' else None)
            fr = frictions(worm) if worm else [0.1, 1.1, 'x']
            for f in fr:
                check_one_step(acc, ia, ib, 'worm', f, U)
                acc.nstates += 1
            if worm:
                check_dropped_master(acc, ia, ib, 'worm', fr[2], U)
                check_one_step(acc, ia, ib, 'worm', fr[2], U, subclass=True)
                check_one_step(acc, ia, ib, 'worm', fr[4], U, subclass=True)
        acc.cases += acc.nstates
        acc.executions += acc.nstates
        acc.sample({'mode': 'one step', 'master': U[ia], 'slave': U[-1], 'functions': FUNCS, 'efficiencies': EFFS})
    elif shard['mode'] == 'hist-prefix':
        levels = bfs_levels(shard['depth'], acc)
        acc.sample({'mode': 'history BFS, levels 0..%d' % shard['depth'],
                    'distinct_states_per_level': [len(l) for l in levels],
                    'example_history': [history_events()[e] for e in (levels[-1][0] if levels[-1] else [])]})
        acc.cases += acc.executions
    else:
        for hist in shard['hists']:
            expand_last(acc, hist)
        acc.sample({'mode': 'history BFS, last level', 'frontier_state_reached_by': [history_events()[e] for e in shard['hists'][0]],
                    'extended_by': 'every event of the menu (%d)' % len(history_events())})
        acc.cases += acc.executions
    return acc


def replay(case):
    acc = Acc()
    if case.get('kind') == 'dropped':
        check_dropped_master(acc, case['a'], case['b'], case['func'], case['param'], universe())
        return acc.violations
    if case.get('kind') == 'step':
        check_one_step(acc, case['a'], case['b'], case['func'], case['param'], universe(), subclass=case.get('subclass', False))
    elif case.get('kind') == 'hist':
        replay_history(case['history'], acc)
    else:
        return run_shard(case['shard'], 'quick').violations
    return acc.violations
