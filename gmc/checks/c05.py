"""C05  Unit conversion agrees with SI definitions; comparisons are unit-blind.

Exhaustive over: 13 kinds x all ordered unit pairs (607) x value alphabet x
{copy, in place}; and for comparisons each (a, u) against b in unit v where b
is the correctly rounded conversion of a and its +-1, +-4 ulp neighbours
("same up to rounding") or a*(1 +- 1e-6), a*(1 +- 0.5) ("differ by more than
rounding"), both operand orders, all six operators.
"""
import math
import operator
from fractions import Fraction as F

import gearpy.units as gu

from gmc import si
from gmc.core import Acc

ID = 'C05'
RULE = ('full product kind x ordered unit pair x value alphabet x {copy,inplace} '
        'for conversion; x neighbour class x operand order x 6 operators for '
        'comparison; every enumerated case is distinct by construction '
        '(distinct alphabet members), a case is non-trivial when the two units '
        'differ or the comparison operands differ')
ASSUMPTIONS = [
    'reference SI table gmc/si.py is built from unit definitions (exact rationals and pi)',
    'conversion tolerance 8 ulp (two float factors and two float operations in gearpy)',
    '"same up to rounding" = within 4 ulp of the correctly rounded conversion, different units only',
    '"differ by more than rounding" = relative difference >= 1e-6',
]
EXPLANATION = 'explicit enumeration of the finite input space; oracle = independent SI table'

MANT = [1.0, 1.5, 3.7, 9.99]
OPS = {'==': operator.eq, '!=': operator.ne, '<': operator.lt,
       '<=': operator.le, '>': operator.gt, '>=': operator.ge}
CONV_ULP = 8
TOL = 1e-12   # only used by the *predicates* that characterise the known finding


def bounds(tier):
    return {'decades': decades(tier), 'mantissas': MANT,
            'unit_pairs': 607, 'neighbours_ulps': [0, 1, -1, 4, -4],
            'far': [1e-6, -1e-6, 0.5, -0.5]}


def decades(tier):
    return list(range(-9, 10, 3)) if tier == 'quick' else list(range(-9, 10))


def values(kind, tier):
    c = si.CONSTRAINT[kind]
    out = []
    for d in decades(tier):
        for m in MANT:
            v = float(F(str(m)) * F(10) ** d)
            out.append(v)
            if c is None:
                out.append(-v)
    if c != 'pos':
        out.append(0.0)
        out.append(0)
    out += [1, 3, 1000, True]              # integer-valued quantities; a bool is an int (taken as 1)
    if c is None:
        out += [-7]
    # subnormal / tiny and huge members for conversion only
    return out


def shards(tier):
    out = [{'kind': k, 'u': u} for k in si.KINDS for u in si.UNITS[k]]
    # the same enumeration in a process that has already simulated (complete, stopped and aborted runs): one unit per kind
    out += [{'kind': k, 'u': si.UNITS[k][-1], 'disturbed': True} for k in si.KINDS]
    return out


def probe():
    """A handful of comparisons and conversions (called from inside a running simulation's load function)."""
    bad = []
    a, b = gu.Length(1, 'm'), gu.Length(1000.00001, 'mm')
    if a == b or not (a < b) or (b <= a):
        bad.append('Length(1 m) vs Length(1000.00001 mm) compared as equal / wrongly ordered')
    if gu.AngularSpeed(3000, 'rpm') != gu.AngularSpeed(50, 'rps'):
        bad.append('3000 rpm != 50 rps')
    if si.ulps_apart(float(gu.Torque(2.5, 'kgfcm').to('Nm').value), si.convert(2.5, 'Torque', 'kgfcm', 'Nm')) > 4:
        bad.append('kgfcm -> Nm factor')
    return bad


def nudge(x, k):
    for _ in range(abs(k)):
        x = math.nextafter(x, math.inf if k > 0 else -math.inf)
    return x


def _mk(kind, value, unit):
    return getattr(gu, kind)(value, unit)


def check_conversion(acc, kind, u, v, x):
    case = {'kind': 'conv', 'qkind': kind, 'u': u, 'v': v, 'x': x}
    K = getattr(gu, kind)
    q = K(x, u)
    site = f'{kind}'
    try:
        r = q.to(v)
    except Exception as ex:
        acc.violation(f'C05/conv/exception/{type(ex).__name__}/{site}', 'conversion between two units of a kind succeeds', case, {'exc': repr(ex)[:200]})
        return
    acc.transitions += 1
    exp = si.convert(x, kind, u, v)
    if type(r) is not K or r.unit != v:
        acc.violation(f'C05/conv/type-or-unit/{site}', 'conv result kind/unit', case,
                      {'got': [type(r).__name__, r.unit]})
        return
    if q.value != x or q.unit != u:
        acc.violation(f'C05/conv/copy-mutated-source/{site}', 'copy conversion leaves source', case,
                      {'src': [q.value, q.unit]})
    d = si.ulps_apart(float(r.value), exp)
    if d > CONV_ULP and not (abs(exp) < 1e-300):
        acc.violation(f'C05/conv/factor/{site}/{u}->{v}', 'value*SI[u]/SI[v]', case,
                      {'got': r.value, 'expected': exp, 'ulps': d})
    if u == v and r.value != x:
        acc.violation(f'C05/conv/identity/{site}', 'same unit conversion exact', case,
                      {'got': r.value})
    # SI magnitude unchanged (through the independent table)
    a, b = si.si(x, kind, u), si.si(float(r.value), kind, v)
    if si.ulps_apart(a, b) > CONV_ULP + 2 and not abs(a) < 1e-300:
        acc.violation(f'C05/conv/si-magnitude/{site}/{u}->{v}', 'SI magnitude unchanged', case,
                      {'si_before': a, 'si_after': b})
    # in place
    q2 = K(x, u)
    r2 = q2.to(v, inplace=True)
    acc.transitions += 1
    # the call returns the converted quantity: the object itself or an equal one (the documentation does not say which)
    returned_ok = r2 is q2 or (type(r2) is K and r2.unit == q2.unit and r2.value == q2.value)
    if not returned_ok or q2.unit != v or si.ulps_apart(float(q2.value), float(r.value)) > 2:
        acc.violation(f'C05/conv/inplace-differs/{site}', 'inplace == copy', case,
                      {'copy': [r.value, r.unit], 'inplace': [q2.value, q2.unit],
                       'returned': str(r2)})
    # the converted object must behave as its public value/unit say (sub-kinds keep a second copy)
    try:
        dbl = q2 + q2
        one = q2 * 1
        if one.value != q2.value or one.unit != q2.unit or \
                si.ulps_apart(float(dbl.value), 2.0 * float(q2.value)) > 2 or dbl.unit != q2.unit:
            acc.violation(f'C05/conv/inplace-inconsistent-object/{site}', 'object converted in place computes with its public value and unit', case,
                          {'value': q2.value, 'unit': q2.unit, 'x*1': [one.value, one.unit], 'x+x': [dbl.value, dbl.unit]})
    except (ValueError, OverflowError):
        pass
    acc.transitions += 2
    # round trip
    back = r.to(u)
    acc.transitions += 1
    if si.ulps_apart(float(back.value), x) > 2 * CONV_ULP and not abs(x) < 1e-300:
        acc.violation(f'C05/conv/roundtrip/{site}/{u}->{v}', 'there and back', case,
                      {'x': x, 'back': back.value})
    acc.outcomes[('conv', u == v)] += 1


def expected_cmp(cls, sa, sb):
    """Expected truth of each operator for a <op> b.  sa, sb exact SI magnitudes."""
    if cls == 'same':
        return {'==': True, '!=': False, '<': False, '<=': True, '>': False, '>=': True}
    return {'==': False, '!=': True, '<': sa < sb, '<=': sa < sb,
            '>': sa > sb, '>=': sa > sb}


def check_comparisons(acc, kind, u, v, x):
    """a = (x, u); b variants in unit v."""
    K = getattr(gu, kind)
    c = si.CONSTRAINT[kind]
    variants = []
    y0 = si.convert(x, kind, u, v)
    if u == v:
        variants.append(('same', 0, y0))
    else:
        for k in (0, 1, -1, 4, -4):
            variants.append(('same', k, nudge(y0, k)))
    if x != 0:
        for rel in (1e-6, -1e-6, 0.5, -0.5):
            variants.append(('differ', rel, si.convert(x * (1 + rel), kind, u, v)))
        if c is None:
            variants.append(('differ', 'opposite sign', si.convert(-x, kind, u, v)))
        if u != v and abs(float(si.exact_ratio(kind, u, v)) - 1.0) > 1e-3:
            variants.append(('differ', 'same number, other unit', x))      # 1.0 m vs 1.0 mm: equal numbers, different magnitudes
    a = K(x, u)
    sa = si.si_exact(x, kind, u)
    for cls, k, y in variants:
        if c == 'pos' and y <= 0 or c == 'nonneg' and y < 0:
            continue
        if y == 0 and x != 0 or math.isinf(y):
            continue                      # underflow/overflow of the alphabet itself
        b = K(y, v)
        sb = si.si_exact(y, kind, v)
        for order in ('ab', 'ba'):
            left, right = (a, b) if order == 'ab' else (b, a)
            sl, sr = (sa, sb) if order == 'ab' else (sb, sa)
            exp = expected_cmp(cls, sl, sr)
            for name, fn in OPS.items():
                acc.transitions += 1
                got = fn(left, right)
                if got is not exp[name]:
                    # independent predicate characterising the absolute-tolerance defect
                    lu = left.unit
                    lv = F(left.value)
                    rv = si.convert_exact(right.value, kind, right.unit, lu)
                    diff = abs(lv - rv)
                    slack = 8 * math.ulp(max(abs(float(lv)), abs(float(rv)), 5e-324))
                    if cls == 'same':
                        regime = 'abs-tol-large' if (lu != right.unit and float(diff) + slack >= TOL) else 'other'
                    else:
                        regime = 'abs-tol-small' if (lu != right.unit and float(diff) - slack <= TOL) else 'other'
                    acc.violation(
                        f'C05/cmp/{cls}/{regime}', f'{cls}: {name}',
                        {'kind': 'cmp', 'qkind': kind, 'left': [left.value, left.unit],
                         'right': [right.value, right.unit], 'op': name, 'cls': cls},
                        {'got': got, 'expected': exp[name], 'k_or_rel': k,
                         'diff_in_left_unit': float(diff)})
        acc.outcomes[('cmp', cls, u == v)] += 1


def check_chain(acc, kind, u, v, w, x):
    """History on ONE object: converted in place u -> v -> w; then it must still convert (copy) to every unit
    and compare, on either side, like a fresh quantity of the same magnitude."""
    K = getattr(gu, kind)
    case = {'kind': 'chain', 'qkind': kind, 'units': [u, v, w], 'x': x}
    q = K(x, u)
    try:
        q.to(v, inplace=True)
        q.to(w, inplace=True)
    except ValueError:
        return
    acc.transitions += 2
    exp_w = si.convert(x, kind, u, w)
    if q.unit != w or si.ulps_apart(float(q.value), exp_w) > 2 * CONV_ULP:
        acc.violation(f'C05/chain/inplace-twice/{kind}', 'two in-place conversions compose', case,
                      {'got': [q.value, q.unit], 'expected': [exp_w, w]})
        return
    for t in si.UNITS[kind]:
        r = q.to(t)
        acc.transitions += 1
        exp = si.convert(x, kind, u, t)
        if r.unit != t or si.ulps_apart(float(r.value), exp) > 3 * CONV_ULP:
            acc.violation(f'C05/chain/convert-after-inplace/{kind}', 'an object converted in place converts on like a fresh one', case,
                          {'target': t, 'got': r.value, 'expected': exp})
            return
    fresh = K(x, u)
    for name, fn in (OPS.items() if u != w else ()):      # same unit: the library compares exactly, rounding of the chain shows
        exp = name in ('==', '<=', '>=')
        for l, r_, side in ((fresh, q, 'right'), (q, fresh, 'left')):
            acc.transitions += 1
            if fn(l, r_) is not exp:
                acc.violation(f'C05/chain/compare-after-inplace/{kind}/{side}', 'an object converted in place compares like a fresh one, on either side', case,
                              {'op': name, 'converted_operand_on': side, 'got': fn(l, r_), 'expected': exp})
                return
    acc.outcomes[('chain', u == w)] += 1


def run_shard(shard, tier):
    if shard.get('disturbed'):
        from gmc import sim
        inside = sim.disturb_process(probe)
        acc = run_shard({k: v for k, v in shard.items() if k != 'disturbed'}, tier)
        for f in inside + probe():
            acc.violation('C05/probe', 'conversion and comparison laws', {'kind': 'shard', 'shard': shard}, {'failure': f})
        acc.relabel('/after-simulations-in-this-process', shard)
        acc.sample({'mode': 'same enumeration after complete, stopped and aborted simulations in this process', 'kind': shard['kind']})
        return acc
    acc = Acc()
    kind, u = shard['kind'], shard['u']
    for v in si.UNITS[kind]:
        for w in si.UNITS[kind]:
            for x in ((1.5, 3700.0) if tier == 'quick' else (1.5, 3700.0, 9.99e-4, 1.0e6)):
                check_chain(acc, kind, u, v, w, x)
                acc.nstates += 1
                acc.cases += 1
    vals = values(kind, tier)
    for v in si.UNITS[kind]:
        for x in vals:
            check_conversion(acc, kind, u, v, x)
            check_comparisons(acc, kind, u, v, x)
            acc.nstates += 1
            acc.executions += 1
            acc.cases += 1
    # every integer value 1..N (an int is a legal value; a conversion must not truncate or special-case it)
    N = 1000 if tier == 'quick' else 5000
    for v in si.UNITS[kind]:
        if v == u:
            continue
        for x in range(1, N + 1):
            exp = si.convert(x, kind, u, v)
            r = getattr(gu, kind)(x, u).to(v)
            acc.transitions += 1
            if r.unit != v or si.ulps_apart(float(r.value), exp) > CONV_ULP:
                acc.violation(f'C05/conv/integer-value/{kind}/{u}->{v}', 'value*SI[u]/SI[v] also for integer values', 
                              {'kind': 'conv', 'qkind': kind, 'u': u, 'v': v, 'x': x}, {'got': r.value, 'expected': exp})
                break
        acc.nstates += 1
    # far-out members (conversion only; no intermediate overflow/underflow)
    for v in si.UNITS[kind]:
        for x in (1.2345e-100, 7.7e100):
            check_conversion(acc, kind, u, v, x)
            acc.nstates += 1
            acc.cases += 1
    acc.sample({'kind': kind, 'u': u, 'v': si.UNITS[kind][-1], 'x': vals[1],
                'expected_converted': si.convert(vals[1], kind, u, si.UNITS[kind][-1])})
    return acc


def replay(case):
    acc = Acc()
    if case['kind'] == 'chain':
        check_chain(acc, case['qkind'], *case['units'], case['x'])
    elif case['kind'] == 'conv':
        check_conversion(acc, case['qkind'], case['u'], case['v'], case['x'])
    elif case['kind'] == 'cmp':
        K = getattr(gu, case['qkind'])
        l = K(*case['left'])
        r = K(*case['right'])
        got = OPS[case['op']](l, r)
        sl = si.si_exact(l.value, case['qkind'], l.unit)
        sr = si.si_exact(r.value, case['qkind'], r.unit)
        exp = expected_cmp(case['cls'], sl, sr)[case['op']]
        if got is not exp:
            acc.violation('C05/cmp/replay', case['op'], case, {'got': got, 'expected': exp})
    else:
        return run_shard(case['shard'], 'quick').violations
    return acc.violations
