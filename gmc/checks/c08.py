"""C08  DC motor torque and current follow the documented characteristic.

Enumerated: motor constants (Tmax, w0 in 3 units each; (i0, imax) grid in
A/mA/uA; and no current data) x speeds x duty cycles: a 41-point grid of
[-1, 1] plus, for every (i0, imax), +-(i0/imax) and its k-ulp neighbours,
k = -4..4.  Driven through angular_speed, pwm, compute_torque(),
compute_electric_current().
"""
import math
from fractions import Fraction as F

from gearpy.mechanical_objects import DCMotor
from gearpy.units import AngularSpeed, Current, InertiaMoment, Torque

from gmc import ref, si
from gmc.core import Acc

ID = 'C08'
RULE = ('full product motor constants (unit choices x (i0,imax) grid + no-current motor) x '
        'speed alphabet x duty alphabet (41-point grid + dead-zone boundary and its +-4 ulp '
        'neighbours, both signs); distinct by construction; non-trivial = duty outside {0}')
ASSUMPTIONS = [
    'reference law gmc/ref.py written from the dc_motor docstrings',
    'values compared at 1e-9 relative to the scale Tmax*(1+|w/(D w0)|) resp. imax*(...)',
    'within 4 ulp of the dead-zone boundary either branch is accepted and only continuity (<= 64 ulp of the scale) and absence of exceptions are demanded',
]
EXPLANATION = 'explicit enumeration; oracle = documented piecewise law, parity, continuity'

I0 = [0.0, 0.05, 0.1, 0.2, 0.35, 0.7, 1.1]
IMAX = [1.2, 1.5, 2.0, 3.0, 5.0, 10.0]
SPEED_RATIOS = [-2.0, -1.0, -0.5, 0.0, 1e-9, 0.5, 1.0, 1.5, 3.0]
T_UNITS = [('Nm', 0.8), ('mNm', 15.0), ('kgfcm', 2.5)]
W_UNITS = [('rad/s', 300.0), ('rpm', 6000.0), ('deg/s', 9000.0)]
CUR_UNITS_Q = [('A', 'A'), ('mA', 'A'), ('A', 'uA')]
# (Tmax, w0, factor on both currents): a 0.6 uNm motor written in kNm, a 294 Nm one in gfmm, very slow / very fast ones, nA currents
SCALED = [(('kNm', 6e-10), ('rpm', 6000.0), 1), (('gfmm', 3e7), ('rad/s', 300.0), 1),
          (('mNm', 15.0), ('rad/s', 2e-6), 1), (('mNm', 15.0), ('rph', 3.6e6), 1),
          (('Nm', 0.8), ('rpm', 6000.0), 1e-9), (('kNm', 6e-10), ('rad/s', 2e-6), 1e-9)]
CUR_UNITS_T = [(a, b) for a in ('A', 'mA', 'uA') for b in ('A', 'mA', 'uA')]


def bounds(tier):
    return {'i0': I0 if tier == 'quick' else I0_T(), 'imax': IMAX if tier == 'quick' else IMAX_T(),
            'speed_ratios': SPEED_RATIOS, 'duty_grid': 41, 'boundary_ulps': list(range(-4, 5)),
            'current_unit_pairs': len(CUR_UNITS_Q if tier == 'quick' else CUR_UNITS_T),
            'scaled_motors': [[list(a), list(b), c] for a, b, c in SCALED]}


def I0_T():
    return I0 + [0.01, 0.15, 0.3, 0.5, 0.9]


def IMAX_T():
    return IMAX + [1.3, 2.5, 4.0, 7.0]


def shards(tier):
    out = []
    i0s, imaxs = (I0, IMAX) if tier == 'quick' else (I0_T(), IMAX_T())
    cu = CUR_UNITS_Q if tier == 'quick' else CUR_UNITS_T
    for tu in T_UNITS:
        for wu in W_UNITS:
            out.append({'T': tu, 'w': wu, 'cur': None})
            for (u0, um) in cu:
                out.append({'T': tu, 'w': wu, 'cur': [u0, um], 'i0s': i0s, 'imaxs': imaxs})
    for cu in (['A', 'A'], ['mA', 'A']):
        for (a, b) in ((0.1, 2.0), (0.7, 3.0), (0.0, 1.5)):
            out.append({'mode': 'history', 'T': T_UNITS[0], 'w': W_UNITS[1], 'cur': cu, 'i0': a, 'imax': b})
    # the law is homogeneous: motors whose constants are numerically tiny or huge in the unit they are written in
    for (tu, wu, cs) in SCALED:
        out.append({'T': tu, 'w': wu, 'cur': None})
        for (u0, um) in CUR_UNITS_Q[:2]:
            out.append({'T': tu, 'w': wu, 'cur': [u0, um], 'i0s': i0s, 'imaxs': imaxs, 'cscale': cs})
    out.append({'mode': 'history', 'T': SCALED[0][0], 'w': W_UNITS[1], 'cur': ['A', 'A'], 'i0': 0.1, 'imax': 2.0})
    out.append({'mode': 'history', 'T': T_UNITS[0], 'w': W_UNITS[1], 'cur': ['A', 'A'], 'i0': 0.1e-9, 'imax': 2.0e-9})
    return out


def nudge(x, k):
    for _ in range(abs(k)):
        x = math.nextafter(x, math.inf if k > 0 else -math.inf)
    return x


def duty_alphabet(i0_si, imax_si, i0_val, imax_val_in_i0_unit):
    grid = [round(-1 + 0.05 * i, 10) for i in range(41)]
    out = [(d, 'grid') for d in grid]
    if i0_si is not None and i0_si > 0:
        # the boundary as a float in the two ways it can be formed
        lims = {i0_si / imax_si}
        try:
            lims.add(i0_val / imax_val_in_i0_unit)
        except ZeroDivisionError:
            pass
        for lim in sorted(lims):
            for k in range(-4, 5):
                d = nudge(lim, k)
                if 0 < d <= 1:
                    out.append((d, 'boundary'))
                    out.append((-d, 'boundary'))
    return out


def make_motor(Tspec, wspec, i0=None, imax=None):
    kw = {}
    if i0 is not None:
        kw = dict(no_load_electric_current=Current(*i0), maximum_electric_current=Current(*imax))
    return DCMotor(name='m', inertia_moment=InertiaMoment(1, 'kgm^2'),
                   no_load_speed=AngularSpeed(wspec[1], wspec[0]),
                   maximum_torque=Torque(Tspec[1], Tspec[0]), **kw)


def drive(motor, w_val, w_unit, D, with_current):
    motor.angular_speed = AngularSpeed(w_val, w_unit)
    motor.pwm = D
    motor.compute_torque()
    T = motor.driving_torque
    cur = None
    if with_current:
        motor.compute_electric_current()
        cur = motor.electric_current
    return T, cur


def check_point(acc, Tspec, wspec, cur_units, i0v, imaxv, ratio, D, tag, speed_unit):
    """One (motor, speed, duty) point."""
    with_cur = cur_units is not None
    Tmax = si.si(Tspec[1], 'Torque', Tspec[0])
    w0 = si.si(wspec[1], 'AngularSpeed', wspec[0])
    # speed expressed in speed_unit
    w_si = ratio * w0
    w_val = si.convert(ratio * wspec[1], 'AngularSpeed', wspec[0], speed_unit)
    w_si = si.si(w_val, 'AngularSpeed', speed_unit)
    i0 = imax = None
    i0q = imaxq = None
    if with_cur:
        i0q = (si.convert(i0v, 'Current', 'A', cur_units[0]), cur_units[0])
        imaxq = (si.convert(imaxv, 'Current', 'A', cur_units[1]), cur_units[1])
        i0 = si.si(i0q[0], 'Current', i0q[1])
        imax = si.si(imaxq[0], 'Current', imaxq[1])
    case = {'kind': 'point', 'T': list(Tspec), 'w': list(wspec), 'cur': cur_units,
            'i0': i0v, 'imax': imaxv, 'ratio': ratio, 'D': D, 'tag': tag,
            'speed_unit': speed_unit}
    site = 'current-motor' if with_cur else 'plain-motor'
    motor = make_motor(Tspec, wspec, i0q, imaxq)
    if tag == 'grid' and round(D * 20) % 4 == 1:
        # the motor under test is a COPY (deep / shallow alternately) of a motor that was driven at full duty before
        import copy
        drive(motor, 0.0, speed_unit, 1, with_cur)
        motor = copy.deepcopy(motor) if round(D * 20) % 8 == 1 else copy.copy(motor)
        case['copied'] = True
    acc.transitions += 1
    try:
        Tq, Iq = drive(motor, w_val, speed_unit, D, with_cur)
    except Exception as e:
        near = 'at-boundary' if tag == 'boundary' else 'grid'
        acc.violation(f'C08/exception/{type(e).__name__}/{near}', 'no exception in the domain', case,
                      {'exc': repr(e)[:200]})
        acc.outcomes['exception'] += 1
        return None
    T = si.q_si(Tq)
    if type(Tq).__name__ != 'Torque':
        acc.violation(f'C08/kind/torque/{site}', 'driving torque is a Torque', case, {})
        return None
    Tref = ref.motor_torque(Tmax, w0, D, w_si, i0, imax)
    if not with_cur:
        scale = Tmax * (1 + abs(ratio))
        if not si.close(T, Tref, 1e-9, scale):
            acc.violation(f'C08/torque/{site}', 'T = Tmax (1 - w/w0)', case, {'got': T, 'ref': Tref})
        acc.outcomes['plain'] += 1
        return (T, None)
    I = si.q_si(Iq)
    Iref = ref.motor_current(Tmax, w0, D, w_si, i0, imax)
    lim = i0 / imax
    near = tag == 'boundary'
    inside = abs(D) <= lim
    dd = max(abs(D), 1e-300)
    tscale = Tmax * imax / (imax - i0) * (1 + abs(w_si) / (dd * w0))
    iscale = imax * (1 + abs(w_si) / (dd * w0))
    if near:
        # either branch; continuity: |T| and |I - D imax| tiny
        if abs(T) > 64 * 2.3e-16 * tscale:
            acc.violation(f'C08/continuity/torque', 'torque continuous across the dead-zone boundary', case,
                          {'got': T, 'bound': 64 * 2.3e-16 * tscale})
        if abs(I - D * imax) > 64 * 2.3e-16 * iscale:
            acc.violation(f'C08/continuity/current', 'current continuous across the dead-zone boundary', case,
                          {'got': I, 'D*imax': D * imax})
        acc.outcomes['boundary'] += 1
    else:
        if inside:
            if T != 0.0:
                acc.violation('C08/dead-zone/torque-not-zero', 'exactly zero torque inside the dead zone', case, {'got': T})
            if not si.close(I, D * imax, 1e-9, imax * 1e-6):
                acc.violation('C08/dead-zone/current', 'current = D imax inside the dead zone', case,
                              {'got': I, 'ref': D * imax})
            acc.outcomes['inside'] += 1
        else:
            if not si.close(T, Tref, 1e-9, tscale * 1e-3):
                acc.violation(f'C08/torque/{site}/{"pos" if D > 0 else "neg"}', 'T = Tmax(D)(1 - w/(D w0))', case,
                              {'got': T, 'ref': Tref})
            if not si.close(I, Iref, 1e-9, iscale * 1e-3):
                acc.violation(f'C08/current/{"pos" if D > 0 else "neg"}', 'i = (D imax - i0) T/Tmax(D) + i0', case,
                              {'got': I, 'ref': Iref})
            acc.outcomes['outside'] += 1
    # anchor points at D = 1
    if D == 1.0 and ratio == 0.0:
        if not (si.close(T, Tmax, 1e-12) and si.close(I, imax, 1e-12)):
            acc.violation('C08/anchor/standstill', 'D=1, w=0 -> Tmax, imax', case, {'T': T, 'I': I})
    if D == 1.0 and ratio == 1.0 and speed_unit == wspec[0]:
        if not (abs(T) <= 1e-12 * Tmax and si.close(I, i0, 1e-9, imax * 1e-9)):
            acc.violation('C08/anchor/no-load', 'D=1, w=w0 -> 0, i0', case, {'T': T, 'I': I})
    return (Tq.value, Iq.value)


# -- operation histories on ONE motor instance ----------------------------------------------------------
H_DUTIES = [1, 0.5, -0.5, 0.02, -1]
H_SPEEDS = [0.0, 0.5, -0.25]
H_TORQUES = [0.3, -0.2]


def history_events():
    ev = [('D', d) for d in H_DUTIES] + [('w', r) for r in H_SPEEDS] + [('T', t) for t in H_TORQUES]
    return ev + [('computeT',), ('computeI',)]


def run_history(acc, Tspec, wspec, cu, i0v, imaxv, hist, judge_all=True):
    """hist: list of event indices.  After every compute step the attribute just computed must be the documented
    function of the motor's CURRENT duty cycle, speed and (for the current) driving torque attribute."""
    ev = history_events()
    i0q = (si.convert(i0v, 'Current', 'A', cu[0]), cu[0])
    imq = (si.convert(imaxv, 'Current', 'A', cu[1]), cu[1])
    motor = make_motor(Tspec, wspec, i0q, imq)
    Tmax = si.si(Tspec[1], 'Torque', Tspec[0])
    w0 = si.si(wspec[1], 'AngularSpeed', wspec[0])
    i0, imax = si.si(*i0q[:1], 'Current', i0q[1]), si.si(imq[0], 'Current', imq[1])
    D, w, T = 1, None, None
    case = {'kind': 'history', 'T': list(Tspec), 'w': list(wspec), 'cur': cu, 'i0': i0v, 'imax': imaxv, 'hist': list(hist)}
    for step, ei in enumerate(hist):
        e = ev[ei]
        last = step == len(hist) - 1
        try:
            if e[0] == 'D':
                motor.pwm = e[1]
                D = e[1]
            elif e[0] == 'w':
                motor.angular_speed = AngularSpeed(e[1] * wspec[1], wspec[0])
                w = e[1] * w0
            elif e[0] == 'T':
                motor.driving_torque = Torque(e[1] * Tmax, 'Nm')
                T = e[1] * Tmax
            elif e[0] == 'computeT':
                if w is None:
                    return 'skip'
                motor.compute_torque()
                T = si.q_si(motor.driving_torque)
                if judge_all or last:
                    ref_T = ref.motor_torque(Tmax, w0, D, w, i0, imax)
                    if not si.close(T, ref_T, 1e-9, Tmax * 1e-9):
                        acc.violation('C08/history/torque', 'torque = law(current duty cycle, current speed) whatever was computed before', case,
                                      {'step': step, 'got': T, 'ref': ref_T, 'D': D, 'w': w})
                        return 'violation'
            else:
                if T is None:
                    return 'skip'
                motor.compute_electric_current()
                if judge_all or last:
                    I = si.q_si(motor.electric_current)
                    ref_I = ref.motor_current_from_torque(Tmax, D, T, i0, imax)
                    if not si.close(I, ref_I, 1e-9, imax * 1e-9):
                        acc.violation('C08/history/current', 'current = law(current duty cycle, driving torque attribute) whatever was computed before', case,
                                      {'step': step, 'got': I, 'ref': ref_I, 'D': D, 'T': T})
                        return 'violation'
        except Exception as ex:
            acc.violation(f'C08/history/exception/{type(ex).__name__}', 'no exception in the domain', case, {'step': step, 'exc': repr(ex)[:200]})
            return 'violation'
    return (D, w, T)


def explore_histories(acc, Tspec, wspec, cu, i0v, imaxv, depth):
    """BFS over event sequences; the state of a motor is (duty, speed, driving torque, whether a torque/current was computed)."""
    ev = history_events()
    seen = set()
    frontier = [[]]
    for d in range(depth):
        nxt = []
        for h in frontier:
            for ei in range(len(ev)):
                h2 = h + [ei]
                r = run_history(acc, Tspec, wspec, cu, i0v, imaxv, h2, judge_all=False)
                acc.transitions += 1
                acc.executions += 1
                if r in ('skip', 'violation'):
                    continue
                # canon keeps the last compute steps' duty cycles too: a stale cache depends on them
                comp = tuple((ev[i][0], k) for k, i in enumerate(h2) if ev[i][0].startswith('compute'))[-2:]
                lastD = tuple(ev[i][1] for i in h2 if ev[i][0] == 'D')[-2:]
                key = (r, tuple(c[0] for c in comp), lastD, ev[ei][0])
                if key not in seen:
                    seen.add(key)
                    acc.state(('hist', cu[0], cu[1], i0v, imaxv) + key)
                    nxt.append(h2)
        frontier = nxt
    return len(seen)


def run_shard(shard, tier):
    if shard.get('mode') == 'history':
        acc = Acc()
        depth = 5 if tier == 'quick' else 6
        n = explore_histories(acc, tuple(shard['T']), tuple(shard['w']), shard['cur'], shard['i0'], shard['imax'], depth)
        acc.sample({'mode': 'operation histories on one motor instance', 'events': [list(e) for e in history_events()],
                    'depth': depth, 'distinct_states': n, 'i0_A': shard['i0'], 'imax_A': shard['imax'], 'cur_units': shard['cur']})
        acc.cases += acc.executions
        return acc
    acc = Acc()
    Tspec, wspec = tuple(shard['T']), tuple(shard['w'])
    speed_units = [wspec[0]] + (['rpm'] if wspec[0] != 'rpm' else ['rad/s'])
    if shard['cur'] is None:
        combos = [(None, None)]
    else:
        cs = shard.get('cscale', 1)
        combos = [(a * cs, b * cs) for a in shard['i0s'] for b in shard['imaxs'] if a < b]
    first = True
    for i0v, imaxv in combos:
        cu = shard['cur']
        if cu is not None:
            i0_val = si.convert(i0v, 'Current', 'A', cu[0])
            imax_in_i0 = si.convert(si.convert(imaxv, 'Current', 'A', cu[1]), 'Current', cu[1], cu[0])
            duties = duty_alphabet(i0v, imaxv, i0_val, imax_in_i0)
        else:
            duties = duty_alphabet(None, None, None, None)
        for su in speed_units:
            for ratio in SPEED_RATIOS:
                res = {}
                for D, tag in duties:
                    r = check_point(acc, Tspec, wspec, cu, i0v, imaxv, ratio, D, tag, su)
                    res[(D, ratio)] = r
                    acc.nstates += 1
                    acc.cases += 1
                    acc.executions += 1
                    if first:
                        acc.sample({'Tmax': Tspec, 'w0': wspec, 'i0_A': i0v, 'imax_A': imaxv,
                                    'cur_units': cu, 'w/w0': ratio, 'D': D, 'speed_unit': su})
                        first = False
                # parity: T(-D,-w) == -T(D,w) bit-exactly (current motors only)
                if cu is not None and ratio >= 0:
                    for D, tag in duties:
                        if D <= 0:
                            continue
                        a = res.get((D, ratio))
                        motor = make_motor(Tspec, wspec,
                                           (si.convert(i0v, 'Current', 'A', cu[0]), cu[0]),
                                           (si.convert(imaxv, 'Current', 'A', cu[1]), cu[1]))
                        w_val = si.convert(ratio * wspec[1], 'AngularSpeed', wspec[0], su)
                        try:
                            Tq, Iq = drive(motor, -w_val, su, -D, True)
                        except Exception:
                            continue            # already reported by check_point
                        acc.transitions += 1
                        if a is None:
                            continue
                        if Tq.value != -a[0] or Iq.value != -a[1]:
                            if not (Tq.value == 0 and a[0] == 0 and Iq.value == -a[1]):
                                acc.violation('C08/parity', 'T(-D,-w) == -T(D,w) and i likewise, exactly',
                                              {'kind': 'parity', 'T': list(Tspec), 'w': list(wspec), 'cur': cu,
                                               'i0': i0v, 'imax': imaxv, 'ratio': ratio, 'D': D, 'speed_unit': su},
                                              {'T(D,w)': a[0], 'T(-D,-w)': Tq.value, 'i(D,w)': a[1], 'i(-D,-w)': Iq.value})
    return acc


def replay(case):
    acc = Acc()
    if case['kind'] == 'point':
        check_point(acc, tuple(case['T']), tuple(case['w']), case['cur'], case['i0'], case['imax'],
                    case['ratio'], case['D'], case['tag'], case['speed_unit'])
    elif case['kind'] == 'history':
        run_history(acc, tuple(case['T']), tuple(case['w']), case['cur'], case['i0'], case['imax'], case['hist'])
    elif case['kind'] == 'parity':
        cu = case['cur']
        m1 = make_motor(tuple(case['T']), tuple(case['w']),
                        (si.convert(case['i0'], 'Current', 'A', cu[0]), cu[0]),
                        (si.convert(case['imax'], 'Current', 'A', cu[1]), cu[1]))
        w_val = si.convert(case['ratio'] * case['w'][1], 'AngularSpeed', case['w'][0], case['speed_unit'])
        a = drive(m1, w_val, case['speed_unit'], case['D'], True)
        b = drive(m1, -w_val, case['speed_unit'], -case['D'], True)
        if a[0].value != -b[0].value or a[1].value != -b[1].value:
            acc.violation('C08/parity', 'parity', case, {'a': [a[0].value, a[1].value], 'b': [b[0].value, b[1].value]})
    else:
        return run_shard(case['shard'], 'quick').violations
    return acc.violations
