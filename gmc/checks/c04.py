"""C04  Trajectories converge to the closed-form solution as dt shrinks."""
import math

from gmc import menu, sim, si, ref
from gmc.core import Acc

ID = 'C04'
RULE = ('grid of chains (1-, 2-, 3-stage, idler, worm stage in either orientation, a self-locking worm stage while it moves as commanded; ratios, efficiencies, inertias from 3-value lists) x motor {plain, with current '
        'data} x duty {1, 0.6, -0.7, inside the dead zone, 3 % outside it on either side} x load/stall {0, 0.5, 1.5, -0.5} x initial speed {0, +, -} x horizon 4/k x '
        'geometric ladder dt = 0.2/k 2^-j; every instant of every run is compared with the closed form under a rigorous explicit-Euler '
        'bound; error ratios between consecutive rungs at t = 1/k and 2/k; canon = (configuration, rung); non-trivial = k > 0 and w0 != w_inf')
ASSUMPTIONS = ['w\' = -k (w - w_inf), k = Tmax(D) R^2 H / (D w0 J), w_inf = (D w0 / R)(1 - L / (Tmax(D) R H)); constant acceleration -L/J inside the dead zone',
               'explicit Euler on the linear ODE: |w_sim - w| <= 0.225 (k dt) |w0 - w_inf|, |theta_sim - theta| <= 1.225 dt |w0 - w_inf| for k dt <= 0.2; asserted with 5% slack',
               'a finite ladder decides first-order behaviour down to its last rung, not the limit itself',
               'instants are compared at their own recorded time; the number of instants is C11\'s business']
EXPLANATION = 'exhaustive configuration grid x dt ladder; analytic oracle with a proven discretisation bound'

CHAINS = {
    1: [('J', 'S')],
    2: [('J', 'S'), ('G', 'S')],
    3: [('J', 'F'), ('J', 'S'), ('G', 'S'), ('J', 'H'), ('G', 'H')],
    4: [('J', 'S'), ('G', 'S'), ('G', 'S')],          # an idler: slave of one mating and master of the next
    5: [('J', 'Wg'), ('W', 'Ww')],                    # worm stage; variant 1 self-locking (judged while it moves as commanded)
    6: [('J', 'Ww'), ('W', 'Wg'), ('J', 'S')],        # worm wheel driving the worm gear (speed increaser)
}
LOCKING = {(5, 1)}                                    # (stage, variant) built with a friction above the self-locking threshold
DUTIES = [1, 0.6, -0.7, 0.03, 0.0515, -0.0515]     # dead zone of the menu's motor: |D| <= 0.05; the last two are 3 % outside it
LOADS = [0.0, 0.5, 1.5, -0.5]
WINIT = [0.0, 0.6, -0.4]          # fraction of the no-load speed at the output


def bounds(tier):
    return {'rungs': 4 if tier == 'quick' else 6, 'k_dt_max': 0.2, 'horizon': '4/k', 'chains': list(CHAINS), 'variants': 3,
            'duties': DUTIES, 'loads_x_stall': LOADS, 'initial_speed_fraction': WINIT}


def make_spec(stage, variant, cur):
    c = CHAINS[stage]
    spec = menu.assign(c, motor=menu.MOTOR_CUR if cur else menu.MOTOR_PLAIN, locking=(stage, variant) in LOCKING)
    # rotate teeth / inertias / efficiencies by the variant
    for i, e in enumerate(spec['elements'][1:], 1):
        if 'z' in e:
            e['z'] = menu.TEETH[(i + 2 * variant) % len(menu.TEETH)]
        e['J'] = menu.INERTIA[(i + variant) % len(menu.INERTIA)]
    for i, l in enumerate(spec['links']):
        if l['t'] == 'G':
            l['eta'] = [0.9, 1, 0.6][(i + variant) % 3]
    if variant == 2:
        # every gear mating with equal teeth numbers: ratio exactly 1, efficiency < 1
        for e in spec['elements']:
            if 'z' in e:
                e['z'] = 24
        for l in spec['links']:
            if l['t'] == 'G':
                l['eta'] = 0.7
    return spec


def shards(tier):
    out = []
    for stage in CHAINS:
        for variant in range(3):
            for cur in (False, True):
                out.append({'stage': stage, 'variant': variant, 'cur': cur})
    return out


def check_config(acc, stage, variant, cur, D, lf, wf, rungs):
    spec = make_spec(stage, variant, cur)
    chain = sim.chain_ref(spec)
    R = chain.up[0]
    H = 1.0
    for e in chain.etas[1:]:
        H *= e
    stall = chain.Tmax * H * R
    L = lf * stall
    spec['load'] = ['const', L]
    w_init = wf * chain.w0 / R
    spec['init'] = {'theta': [0.25, 'rad'], 'w': [w_init, 'rad/s']}
    case = {'kind': 'cfg', 'stage': stage, 'variant': variant, 'cur': cur, 'D': D, 'load_frac': lf, 'w_frac': wf}
    dead = cur and abs(D) <= chain.i0 / chain.imax
    if cur and not dead:
        TmaxD = chain.Tmax * ((D * chain.imax - chain.i0) if D > 0 else (D * chain.imax + chain.i0)) / (chain.imax - chain.i0)
        Deff = D
    else:
        TmaxD, Deff = chain.Tmax, 1.0
    if dead:
        a_const = -L / chain.J
        kk = 10.0                          # arbitrary time scale for the ladder
        w_inf = None
    else:
        kk = TmaxD * H * R * R / (Deff * chain.w0 * chain.J)
        w_inf = (Deff * chain.w0 / R) * (1.0 - L / (TmaxD * R * H))
    if (stage, variant) in LOCKING:
        # a self-locking chain follows the same linear law as long as it moves in the commanded direction and is not
        # held: keep the configurations whose whole exact trajectory does (start and limit speed on the duty's side)
        sgn = 1.0 if D > 0 else -1.0
        if dead or w_inf is None or sgn * w_inf <= 0 or sgn * w_init < 0 or (w_init == 0.0 and sgn * (w_inf) <= 0):
            return
    errs = []
    for j in range(rungs):
        dt = 0.2 / kk * 2.0 ** (-j)
        n = 20 * 2 ** j
        m = sim.Model(spec)
        m.elements[0].pwm = D
        # the ladder is physical: the unit the step is written in rotates over the four time units
        tu = ['sec', 'ms', 'min', 'hour'][(stage + variant + j + int(wf != 0)) % 4]
        try:
            m.run([si.convert(dt, 'TimeInterval', 'sec', tu), tu], [si.convert(dt * n, 'TimeInterval', 'sec', tu), tu])
        except Exception as ex:
            acc.violation(f'C04/run-error/{type(ex).__name__}', 'simulation runs', case, {'exc': repr(ex)[:200], 'rung': j})
            return
        acc.executions += 1
        ts = m.times()
        th = m.series(chain.n - 1, 'angular position')
        ws = m.series(chain.n - 1, 'angular speed')
        acc.transitions += len(ts)
        acc.state((stage, variant, cur, D, lf, wf, j))
        worst_w = worst_th = 0.0
        for i, t in enumerate(ts):
            if dead:
                w_ex = w_init + a_const * t
                th_ex = 0.25 + w_init * t + 0.5 * a_const * t * t
                bw = 1e-9 * (abs(w_init) + abs(a_const) * t) + 1e-300
                bth = 0.5 * abs(a_const) * dt * t * 1.05 + 1e-9 * (abs(th_ex) + 1)
            else:
                th_ex, w_ex = ref.closed_form(kk, w_inf, w_init, 0.25, t)
                delta = abs(w_init - w_inf)
                bw = 0.225 * (kk * dt) * delta * 1.05 + 1e-9 * (abs(w_ex) + delta) + 1e-300
                bth = 1.225 * dt * delta * 1.05 + 1e-9 * (abs(th_ex) + 1)
            ew, eth = abs(ws[i] - w_ex), abs(th[i] - th_ex)
            worst_w = max(worst_w, ew / bw)
            worst_th = max(worst_th, eth / bth)
            if ew > bw:
                acc.violation('C04/speed-bound' + ('/dead-zone' if dead else ''), 'simulated speed within O(dt) of the closed form at every instant', case,
                              {'rung': j, 'dt': dt, 'instant': i, 't': t, 'sim': ws[i], 'exact': w_ex, 'bound': bw})
                return
            if eth > bth:
                acc.violation('C04/position-bound' + ('/dead-zone' if dead else ''), 'simulated position within O(dt) of the closed form at every instant', case,
                              {'rung': j, 'dt': dt, 'instant': i, 't': t, 'sim': th[i], 'exact': th_ex, 'bound': bth})
                return
        if not dead:
            e1 = []
            for mult in (1, 2):
                idx = 5 * 2 ** j * mult
                if idx < len(ts):
                    th_ex, w_ex = ref.closed_form(kk, w_inf, w_init, 0.25, ts[idx])
                    e1.append((abs(ws[idx] - w_ex), abs(th[idx] - th_ex), abs(w_ex), abs(th_ex)))
            errs.append(e1)
        acc.extra['worst_speed_error_over_bound'] = 0
        acc.extra.setdefault('_ww', 0.0)
        acc.extra['_ww'] = max(acc.extra['_ww'], worst_w)
        acc.extra.setdefault('_wt', 0.0)
        acc.extra['_wt'] = max(acc.extra['_wt'], worst_th)
    # halving: error ratio between consecutive rungs
    if not dead:
        delta = abs(w_init - w_inf)
        for j in range(len(errs) - 1):
            for ti in range(min(len(errs[j]), len(errs[j + 1]))):
                for which, name in ((0, 'speed'), (1, 'position')):
                    c0, c1 = errs[j][ti][which], errs[j + 1][ti][which]
                    scale = delta if which == 0 else delta / kk
                    if c0 > 1e-7 * scale and c0 > 1e-8 * (errs[j][ti][which + 2] + 1.0) and c1 > 0:
                        ratio = c0 / c1
                        acc.coverage[('error-ratio', round(ratio, 1))] += 1
                        if not (1.6 <= ratio <= 2.6):
                            acc.violation(f'C04/halving/{name}', 'the error at a fixed time roughly halves when dt is halved', case,
                                          {'rung': j, 'time_index': ti, 'coarse': c0, 'fine': c1, 'ratio': ratio})
                            return
    acc.outcomes[('dead' if dead else 'live', 'delta0' if (not dead and abs(w_init - w_inf) < 1e-12) else 'moving')] += 1
    acc.cases += 1


def run_shard(shard, tier):
    acc = Acc()
    rungs = 4 if tier == 'quick' else 6
    duties = DUTIES if shard['cur'] else [1]
    for D in duties:
        for lf in LOADS:
            for wf in WINIT:
                check_config(acc, shard['stage'], shard['variant'], shard['cur'], D, lf, wf, rungs)
    ww, wt = acc.extra.pop('_ww', 0.0), acc.extra.pop('_wt', 0.0)
    acc.extra.pop('worst_speed_error_over_bound', None)
    acc.coverage[('worst speed error / bound (percent, max over shard)', int(100 * ww))] += 1
    acc.coverage[('worst position error / bound (percent, max over shard)', int(100 * wt))] += 1
    acc.sample({'stages': shard['stage'], 'variant': shard['variant'], 'motor_with_current': shard['cur'], 'duty': duties[-1],
                'load/stall': LOADS[1], 'initial_speed_fraction': WINIT[1], 'ladder': f'dt = 0.2/k * 2^-j, j < {rungs}'})
    return acc


def replay(case):
    acc = Acc()
    if case.get('kind') == 'cfg':
        check_config(acc, case['stage'], case['variant'], case['cur'], case['D'], case['load_frac'], case['w_frac'], 4)
        return acc.violations
    return run_shard(case['shard'], 'quick').violations
