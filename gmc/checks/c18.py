"""C18  Snapshot and export report the recorded history faithfully."""
import csv
import itertools
import math
import os
import shutil
import tempfile

from gearpy.units import Time, TimeInterval

from gmc import menu, sim, si
from gmc.core import Acc

ID = 'C18'
RULE = ('3 simulated powertrains; snapshot: EVERY non-empty subset of the valid variables (up to 2047) at a mid-step target time; '
        'every target time in {recorded instants, midpoints, quarter points} x 4 time units; every single change of one output-unit '
        'parameter to every other unit (thorough: every pair); export: the same unit enumeration, CSV re-read; oracle = reference '
        'linear interpolation of the recorded samples converted through gmc/si.py; canon = (powertrain, request); non-trivial = a '
        'proper subset of variables or a non-default unit')
ASSUMPTIONS = ['column labels "variable (unit)", "pwm" bare; compared as a set', 'cells compared at 1e-9 relative',
               'empty = NaN / missing in the returned frame']
EXPLANATION = 'exhaustive variable subsets, target times and unit deviations on the real snapshot/export; reference interpolation'

SORT = ['angular position', 'angular speed', 'angular acceleration', 'torque', 'driving torque', 'load torque',
        'tangential force', 'bending stress', 'contact stress', 'electric current', 'pwm']
VAR_KIND = {'angular position': 'AngularPosition', 'angular speed': 'AngularSpeed', 'angular acceleration': 'AngularAcceleration',
            'torque': 'Torque', 'driving torque': 'Torque', 'load torque': 'Torque', 'tangential force': 'Force',
            'bending stress': 'Stress', 'contact stress': 'Stress', 'electric current': 'Current', 'pwm': None}
PARAM_OF_VAR = {'angular position': 'angular_position_unit', 'angular speed': 'angular_speed_unit',
                'angular acceleration': 'angular_acceleration_unit', 'torque': 'torque_unit',
                'driving torque': 'driving_torque_unit', 'load torque': 'load_torque_unit', 'tangential force': 'force_unit',
                'bending stress': 'stress_unit', 'contact stress': 'stress_unit', 'electric current': 'current_unit'}
DEFAULTS = {'angular_position_unit': 'rad', 'angular_speed_unit': 'rad/s', 'angular_acceleration_unit': 'rad/s^2',
            'torque_unit': 'Nm', 'driving_torque_unit': 'Nm', 'load_torque_unit': 'Nm', 'force_unit': 'N',
            'stress_unit': 'MPa', 'current_unit': 'A'}
PARAM_KIND = {'angular_position_unit': 'AngularPosition', 'angular_speed_unit': 'AngularSpeed',
              'angular_acceleration_unit': 'AngularAcceleration', 'torque_unit': 'Torque', 'driving_torque_unit': 'Torque',
              'load_torque_unit': 'Torque', 'force_unit': 'Force', 'stress_unit': 'Stress', 'current_unit': 'Current'}
PARENTS = {'bending stress': ['tangential force'], 'contact stress': ['tangential force', 'bending stress']}


def bounds(tier):
    return {'powertrains': 4 if tier != 'quick' else 3, 'variable_subsets': 'all non-empty', 'time_units': 4,
            'unit_deviation_bound': 1 if tier == 'quick' else 2}


def model_spec(which):
    J = [2.0, 'gm^2']
    full = {'m': [1.0, 'mm'], 'b': [5.0, 'mm'], 'E': [200.0, 'GPa']}
    if which == 0:
        els = [dict(menu.MOTOR_CUR), dict({'k': 'S', 'z': 12, 'J': J}, **full), dict({'k': 'S', 'z': 30, 'J': J}, **full)]
        links = [{'t': 'J'}, {'t': 'G', 'eta': 0.9}]
    elif which == 1:
        els = [dict(menu.MOTOR_PLAIN),
               {'k': 'Wg', 'starts': 2, 'J': J, 'beta': [10.0, 'deg'], 'alpha': [20.0, 'deg'], 'd': [10.0, 'mm']},
               {'k': 'Ww', 'z': 30, 'J': J, 'beta': [10.0, 'deg'], 'alpha': [20.0, 'deg'], 'm': [1.0, 'mm'], 'b': [5.0, 'mm']},
               {'k': 'S', 'z': 20, 'J': J}]
        links = [{'t': 'J'}, {'t': 'W', 'f': 0.1}, {'t': 'J'}]
    elif which == 3:
        # self-locking worm chain, initial speed written in rpm, motor off at first: the chain is held (the solver writes
        # its own 0 rad/s objects) and then restarts -- one history holds samples in several units; the load function
        # answers in another torque unit at every instant
        spec = menu.assign([('J', 'Wg'), ('W', 'Ww')], motor=menu.MOTOR_CUR, locking=True,
                           init={'theta': [5.0, 'deg'], 'w': [30.0, 'rpm']})
        spec['elements'][1]['d'] = [10.0, 'mm']
        spec['elements'][2].update({'m': [1.0, 'mm'], 'b': [5.0, 'mm']})
        spec['load'] = ['const', 0.3 * menu.stall_at_output(spec)]
        spec['load_unit'] = ['Nm', 'mNm', 'kgfcm']
        return spec
    else:
        els = [dict(menu.MOTOR_CUR), {'k': 'F', 'J': J},
               {'k': 'H', 'z': 15, 'J': J, 'beta': [20.0, 'deg'], 'm': [1.0, 'mm']},
               {'k': 'H', 'z': 40, 'J': J, 'beta': [20.0, 'deg'], 'm': [1.0, 'mm'], 'b': [4.0, 'mm']}]
        links = [{'t': 'J'}, {'t': 'J'}, {'t': 'G', 'eta': 0.8}]
    spec = {'elements': els, 'links': links, 'init': {'theta': [0.1, 'rad'], 'w': [1.0, 'rad/s']}}
    spec['load'] = ['mix', 0.2 * menu.stall_at_output(spec), 0.0, 0.0, 0.3 * menu.stall_at_output(spec)]
    return spec


def simulate(which):
    spec = model_spec(which)
    # element names are free text: dots and spaces included
    names = None if which == 0 else [f'stage {which}.{i}' if i else 'motor v1.0' for i in range(len(spec['elements']))]
    if which == 2:
        # pairwise different names that any normalisation (strip, case folding, unicode composition) would merge
        names = ['drive', 'drive ', ' drive', 'Drive', 'dr\u00edve', 'dri\u0301ve'][:len(spec['elements'])]
    m = sim.Model(spec, names)
    duty = [1, 0.6, 0.8, 1, 0.3, None, 0.9, 1, 1] if which != 3 else [0, 0, 1, 1, 0.7, 1, 0, 1, 1]
    m.run([0.125, 'sec'], [1.0, 'sec'], duty=duty)
    return m


def valid_vars(m):
    s = set()
    for e in m.elements:
        s |= set(e.time_variables)
    return [v for v in SORT if v in s]


def ref_cell(m, i, var, t, unit):
    """Reference interpolation of element i's recorded `var` at time t [s], in `unit`."""
    series = m.elements[i].time_variables.get(var)
    if series is None or len(series) != len(m.pt.time):
        return None
    ts = m.times()
    kind = VAR_KIND[var]
    ys = [s if kind is None else si.convert(s.value, kind, s.unit, unit) for s in series]
    for k in range(len(ts) - 1):
        if ts[k] <= t <= ts[k + 1]:
            if t == ts[k]:
                return ys[k]
            if t == ts[k + 1]:
                return ys[k + 1]
            return ys[k] + (ys[k + 1] - ys[k]) * (t - ts[k]) / (ts[k + 1] - ts[k])
    return None


def label(var, units):
    if var == 'pwm':
        return 'pwm'
    return f'{var} ({units[PARAM_OF_VAR[var]]})'


def check_snapshot(acc, which, m, variables, t, t_unit, unit_over, tag=None):
    units = dict(DEFAULTS)
    units.update(unit_over)
    case = {'kind': 'snap' if tag is None else 'snap-history', 'model': which, 'variables': variables, 't': t, 't_unit': t_unit, 'units': unit_over, 'tag': tag}
    sfx = '' if tag is None else '/' + tag
    # (written in minutes, a positive target is handed over as a TimeInterval, a sub-kind of Time)
    tq = (TimeInterval if (t > 0 and t_unit == 'min') else Time)(si.convert(t, 'Time', 'sec', t_unit), t_unit)
    acc.transitions += 1
    try:
        df = m.pt.snapshot(target_time=tq, variables=None if variables is None else list(variables),
                           print_data=False, **units)
    except Exception as ex:
        acc.violation(f'C18/snapshot/exception/{type(ex).__name__}{sfx}', 'snapshot inside the simulated interval succeeds', case,
                      {'exc': repr(ex)[:200]})
        return
    req = valid_vars(m) if variables is None else list(variables)
    exp_cols = {label(v, units) for v in req}
    got_cols = set(df.columns)
    extra = sorted(got_cols - exp_cols)
    missing = sorted(exp_cols - got_cols)
    if extra:
        acc.violation(f'C18/snapshot/extra-columns/{"+".join(c.split(" (")[0] for c in extra)}',
                      'no other columns appear when variables are selected', case, {'extra': extra})
    if missing:
        acc.violation(f'C18/snapshot/missing-columns/{"+".join(c.split(" (")[0] for c in missing)}',
                      'every requested variable has a column', case, {'missing': missing})
    for i, e in enumerate(m.elements):
        for v in req:
            col = label(v, units)
            if col not in got_cols:
                continue
            cell = df.loc[e.name, col] if e.name in df.index else float('nan')
            try:
                cell = float(cell)
            except (TypeError, ValueError):
                cell = float('nan')
            u = units.get(PARAM_OF_VAR.get(v, ''), None)
            exp = ref_cell(m, i, v, t, u)
            if exp is None:
                if not math.isnan(cell):
                    acc.violation(f'C18/snapshot/cell-not-empty/{v}', 'cells for variables an element does not record are empty', case,
                                  {'element': e.name, 'var': v, 'cell': cell})
                continue
            if math.isnan(cell):
                miss = [p for p in PARENTS.get(v, []) if p not in req]
                tag = ('missing-parents:' + '+'.join(miss)) if miss else 'requested-alone-or-with-parents'
                acc.violation(f'C18/snapshot/cell-empty/{v}/{tag}', 'the recorded sample (interpolated) is reported for every element that records the variable', case,
                              {'element': e.name, 'var': v, 'expected': exp})
                continue
            if not si.close(cell, exp, 1e-9, 1e-300):
                acc.violation(f'C18/snapshot/value/{v}{sfx}', 'cell = interpolation of the neighbouring samples in the requested unit', case,
                              {'element': e.name, 'var': v, 'cell': cell, 'expected': exp, 'unit': u})
    ts_ = m.times()
    where = 'at-instant' if any(t == x for x in ts_) else ('near-instant' if any(abs(t - x) < 1e-5 for x in ts_) else 'between')
    acc.outcomes[('snapshot', where, 'all-variables' if variables is None else ('one' if len(variables) == 1 else 'subset'), tag or 'single-run')] += 1
    acc.nstates += 1
    acc.cases += 1
    acc.executions += 1


def check_export(acc, which, m, time_unit, unit_over, tmp):
    units = dict(DEFAULTS)
    units.update(unit_over)
    case = {'kind': 'export', 'model': which, 'time_unit': time_unit, 'units': unit_over}
    folder = os.path.join(tmp, 'e')
    shutil.rmtree(folder, ignore_errors=True)
    acc.transitions += 1
    try:
        m.pt.export_time_variables(folder_path=folder, time_unit=time_unit, **units)
    except Exception as ex:
        acc.violation(f'C18/export/exception/{type(ex).__name__}', 'export succeeds', case, {'exc': repr(ex)[:200]})
        return
    ts = m.times()
    for i, e in enumerate(m.elements):
        path = os.path.join(folder, e.name + '.csv')
        if not os.path.exists(path):
            acc.violation('C18/export/file-missing', 'one CSV per element', case, {'element': e.name})
            continue
        rows = list(csv.DictReader(open(path)))
        if len(rows) != len(ts):
            acc.violation('C18/export/row-count', 'one row per recorded instant', case, {'element': e.name, 'rows': len(rows), 'instants': len(ts)})
            continue
        tcol = f'time ({time_unit})'
        exp_cols = {tcol} | {label(v, units) for v in e.time_variables}
        if set(rows[0].keys()) != exp_cols:
            acc.violation('C18/export/columns', 'time and every recorded variable', case,
                          {'element': e.name, 'got': sorted(rows[0].keys()), 'expected': sorted(exp_cols)})
            continue
        for k, row in enumerate(rows):
            if not si.close(float(row[tcol]), si.convert(ts[k], 'Time', 'sec', time_unit), 1e-9, 1e-300):
                acc.violation('C18/export/time', 'time converted to the requested unit', case, {'k': k, 'got': row[tcol]})
                break
            bad = False
            for v, series in e.time_variables.items():
                s = series[k]
                kind = VAR_KIND[v]
                exp = s if kind is None else si.convert(s.value, kind, s.unit, units[PARAM_OF_VAR[v]])
                if not si.close(float(row[label(v, units)]), exp, 1e-9, 1e-300):
                    acc.violation(f'C18/export/value/{v}', 'every recorded variable converted to the requested unit', case,
                                  {'element': e.name, 'k': k, 'got': row[label(v, units)], 'expected': exp})
                    bad = True
                    break
            if bad:
                break
    acc.outcomes[('export', time_unit, 'default-units' if not unit_over else 'unit-deviation')] += 1
    acc.nstates += 1
    acc.cases += 1
    acc.executions += 1


def unit_deviations(bound):
    devs = [{}]
    singles = []
    for p, d in DEFAULTS.items():
        for u in si.UNITS[PARAM_KIND[p]]:
            if u != d:
                singles.append((p, u))
    devs += [{p: u} for p, u in singles]
    if bound >= 2:
        for (p1, u1), (p2, u2) in itertools.combinations(singles, 2):
            if p1 != p2:
                devs.append({p1: u1, p2: u2})
    return devs


def target_times(m):
    ts = m.times()
    out = list(ts)
    for a, b in zip(ts, ts[1:]):
        out += [(a + b) / 2, a + (b - a) / 4, a + 3 * (b - a) / 4]
    # very close to a recorded instant without being on it: still an interpolation, not the raw sample
    for a, b in zip(ts[1:], ts[2:]):
        out += [a + 1e-6, b - 1e-6, a + 1e-9 * (b - a) + 3e-8]
    return out


def shards(tier):
    out = []
    for which in ((0, 1, 3) if tier == 'quick' else (0, 1, 2, 3)):
        for p in range(16):
            out.append({'model': which, 'mode': 'subsets', 'part': [p, 16]})
        out.append({'model': which, 'mode': 'times'})
        P = 4 if tier == 'quick' else 32
        for p in range(P):
            out.append({'model': which, 'mode': 'units', 'part': [p, P]})
            out.append({'model': which, 'mode': 'export', 'part': [p, P]})
    return out


def run_shard(shard, tier):
    acc = Acc()
    which = shard['model']
    m = simulate(which)
    vv = valid_vars(m)
    ts = m.times()
    tmid = (ts[3] + ts[4]) / 2
    if shard['mode'] == 'subsets':
        p, P = shard['part']
        idx = 0
        for r in range(1, len(vv) + 1):
            for sub in itertools.combinations(vv, r):
                idx += 1
                if idx % P != p:
                    continue
                check_snapshot(acc, which, m, list(sub), tmid, 'sec', {})
                if tier != 'quick':
                    check_snapshot(acc, which, m, list(sub), ts[2], 'ms', {})
        acc.sample({'model': which, 'mode': 'variable subsets', 'valid_variables': vv, 'target_time_s': tmid, 'example_subset': list(sub)})
    elif shard['mode'] == 'times':
        for t in target_times(m):
            for tu in ('sec', 'ms', 'min', 'hour'):
                check_snapshot(acc, which, m, None, t, tu, {})
                check_snapshot(acc, which, m, ['angular speed', 'load torque', 'pwm'], t, tu, {})
        acc.sample({'model': which, 'mode': 'target times', 'times_s': target_times(m)[:12], 'time_units': ['sec', 'ms', 'min', 'hour']})
        # history: snapshot, continue the simulation, snapshot / export again (old and new instants)
        # (the continuation is requested in ms: the recorded instants then carry two different units)
        m.run([125.0, 'ms'], [500.0, 'ms'], duty=[1, 0.6, 0.8, 1, 0.3, None, 0.9, 1, 1, 0.5, -0.4, 1, 1])
        # ... and once more with a finer step: the recorded grid is no longer uniform
        m.run([0.03125, 'sec'], [0.1875, 'sec'], duty=[1, 0.6, 0.8, 1, 0.3, None, 0.9, 1, 1, 0.5, -0.4, 1, 1, 0.7, 1, 0.2, 1, 1, 1])
        tmp = tempfile.mkdtemp(prefix='gmc_c18_')
        try:
            for t in target_times(m)[::3]:
                check_snapshot(acc, which, m, None, t, 'sec', {}, tag='after-continuation')
                check_snapshot(acc, which, m, ['torque', 'pwm'], t, 'ms', {'torque_unit': 'mNm'}, tag='after-continuation')
            for tu in ('sec', 'ms', 'min'):
                check_export(acc, which, m, tu, {}, tmp)
            m.pt.reset()
            m.apply_init()
            m.run([0.0625, 'sec'], [1.25, 'sec'], duty=[0.5, 1, 1, 1, 1])      # finer step, more instants than before the reset
            for t in target_times(m):
                check_snapshot(acc, which, m, None, t, 'sec', {}, tag='after-reset-and-rerun')
            check_export(acc, which, m, 'ms', {'angular_speed_unit': 'rpm'}, tmp)
        finally:
            shutil.rmtree(tmp, ignore_errors=True)
    else:
        p, P = shard['part']
        devs = unit_deviations(1 if tier == 'quick' else 2)
        tmp = tempfile.mkdtemp(prefix='gmc_c18_')
        try:
            for idx, d in enumerate(devs):
                if idx % P != p:
                    continue
                if shard['mode'] == 'units':
                    check_snapshot(acc, which, m, None, tmid, 'sec', d)
                    if len(d) <= 1:
                        check_snapshot(acc, which, m, None, ts[5], 'sec', d)
                else:
                    if len(d) <= 1:
                        for tu in ('sec', 'ms', 'min', 'hour'):
                            check_export(acc, which, m, tu, d, tmp)
                    else:
                        check_export(acc, which, m, 'sec', d, tmp)
        finally:
            shutil.rmtree(tmp, ignore_errors=True)
        acc.sample({'model': which, 'mode': shard['mode'] + ' unit deviations', 'example': devs[min(len(devs) - 1, 7)]})
    return acc


def replay(case):
    acc = Acc()
    k = case.get('kind')
    if k == 'snap':
        m = simulate(case['model'])
        check_snapshot(acc, case['model'], m, case['variables'], case['t'], case['t_unit'], case['units'])
    elif k == 'export':
        m = simulate(case['model'])
        tmp = tempfile.mkdtemp(prefix='gmc_c18_')
        try:
            check_export(acc, case['model'], m, case['time_unit'], case['units'], tmp)
        finally:
            shutil.rmtree(tmp, ignore_errors=True)
    else:
        return run_shard(case['shard'], 'quick').violations
    return acc.violations
