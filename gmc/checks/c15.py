"""C15  Each control rule applies in its documented window with its documented value."""
import itertools
import math

from gearpy.motor_control import PWMControl
from gearpy.motor_control.rules import (ConstantPWM, ReachAngularPosition, StartLimitCurrent,
                                        StartProportionalToAngularPosition)
from gearpy.sensors import AbsoluteRotaryEncoder, Tachometer, Timer
from gearpy.units import (Angle, AngularPosition, AngularSpeed, Current, Time, TimeInterval, Torque)

from gmc import menu, sim, si, ref, rules_h as rh
from gmc.core import Acc

ID = 'C15'
RULE = ('one step, per rule kind: parameter grid in several units x sensor target along the chain x state grid on both '
        'sides of each window boundary (and on it / 1 ulp either side where the comparison is exact) x chains; then '
        'controlled simulations with StartLimitCurrent (tachometer on the motor), limits x loads, 40 instants; canon = '
        '(rule kind, parameters, target, state); non-trivial = the rule is applicable')
ASSUMPTIONS = ['static error and minimum duty cycle use the overall efficiency over ALL matings, as documented',
               'window boundaries are probed at +-1e-6 relative; exactly-on and +-1 ulp only for binary-fraction timer parameters in one unit (where the code compares exactly)',
               'StartLimitCurrent is judged by substituting its proposal into the reference current law, not by re-deriving the root']
EXPLANATION = 'exhaustive boundary grids on the real rule objects; cross-module consistency rule vs motor law; controlled simulations'

CHAINS = [
    [('J', 'S'), ('G', 'S'), ('J', 'S')],
    [('J', 'F'), ('J', 'H'), ('G', 'H')],
    [('J', 'Ww'), ('W', 'Wg'), ('J', 'S')],        # a wheel driving a worm: its efficiency belongs to eta_t
]


def bounds(tier):
    return {'chains': 2 if tier == 'quick' else 3, 'sim_instants': 40, 'limits_x_imax': [0.3, 0.6, 0.9]}


def spec_of(ci):
    spec = menu.assign(CHAINS[ci], motor=menu.MOTOR_CUR, init={'theta': [0.0, 'rad'], 'w': [0.0, 'rad/s']})
    spec['load'] = ['const', 0.1 * menu.stall_at_output(spec)]
    return spec


def shards(tier):
    out = []
    for ci in ((0, 2) if tier == 'quick' else (0, 1, 2)):
        for kind in ('constant', 'reach', 'prop', 'limit', 'sim'):
            out.append({'chain': ci, 'rule': kind})
    return out


def eta_total(chain):
    e = 1.0
    for x in chain.etas[1:]:
        e *= x
    return e


def attach_midload(m):
    """Give the first intermediate gear (not the last element) an external torque of its own (null, so the hand-set motor
    load stays the one the rule reads).  The documented overall efficiency is the product over ALL matings wherever the
    loads are applied (seed C15-10: the product stopped at the first load-carrying gear)."""
    for i in range(1, len(m.elements) - 1):
        if hasattr(m.elements[i], 'external_torque'):
            m.elements[i].external_torque = lambda time, angular_position, angular_speed: Torque(0.0, 'Nm')
            return i
    return None


def nudge(x, k):
    for _ in range(abs(k)):
        x = math.nextafter(x, math.inf if k > 0 else -math.inf)
    return x


# ---------------------------------------------------------------- ConstantPWM
def check_constant(acc, ci):
    spec = spec_of(ci)
    chain = sim.chain_ref(spec)
    # (start [v,u], duration [v,u], exact?)
    params = [([0.25, 'sec'], [0.5, 'sec'], True), ([0.0, 'sec'], [0.125, 'sec'], True),
              ([0.3, 'sec'], [0.5, 'sec'], False), ([250.0, 'ms'], [0.5, 'sec'], False),
              ([0.01, 'min'], [200.0, 'ms'], False), ([0.3, 'sec'], [1.0 / 7200, 'hour'], False)]
    for start, dur, exact in params:
        s = si.si(start[0], 'Time', start[1])
        d = si.si(dur[0], 'TimeInterval', dur[1])
        e = s + d
        pts = [(s - 1e-6 - 1e-3 * d, False), (s + 1e-6 * max(d, 1), True), (s + d / 2, True),
               (e - 1e-6 * max(d, 1), True), (e + 1e-6 * max(e, 1), False), (e + 10.0, False)]
        if exact:
            pts += [(s, True), (nudge(s, 1), True), (e, True), (nudge(e, -1), True), (nudge(e, 1), False)]
            if s > 0:
                pts.append((nudge(s, -1), False))
        for value in (0.37, -1, 0):
            for t, inside in pts:
                if t < 0:
                    continue
                t_units = ['sec'] if exact else ['sec', 'ms', 'min']
                for tu in t_units:
                    case = {'kind': 'constant', 'chain': ci, 'start': start, 'dur': dur, 'value': value, 't': t, 't_unit': tu}
                    m = sim.Model(spec)
                    rh.set_state(m, chain, t, 0.0, 0.0, t_unit=tu)
                    # (a start written in ms is handed over as a TimeInterval, a sub-kind of Time)
                    start_q = TimeInterval(*start) if start[1] == 'ms' else Time(*start)
                    rule = ConstantPWM(timer=Timer(start_q, TimeInterval(*dur)), powertrain=m.pt, target_pwm_value=value)
                    acc.transitions += 1
                    got = rule.apply()
                    exp = value if inside else None
                    acc.nstates += 1
                    acc.outcomes[('constant', inside)] += 1
                    if got != exp or (got is None) != (exp is None):
                        where = 'exact-boundary' if exact and (t in (s, e) or abs(t - s) < 1e-12 or abs(t - e) < 1e-12) else 'margin'
                        acc.violation(f'C15/ConstantPWM/window/{where}', 'constant exactly while start <= t <= start + duration', case,
                                      {'got': got, 'expected': exp, 't': t, 'start': s, 'end': e})
    acc.sample({'rule': 'ConstantPWM', 'start': [0.25, 'sec'], 'duration': [0.5, 'sec'], 't_grid': 'both sides, on, +-1 ulp of start and end'})


# ---------------------------------------------------------- ReachAngularPosition
def check_reach(acc, ci):
    spec = spec_of(ci)
    chain = sim.chain_ref(spec)
    eta = eta_total(chain)
    n = chain.n
    targets = [[10.0, 'rad'], [600.0, 'deg'], [1.5, 'rot'], [-2.0, 'rad']]
    brakes = [[2.0, 'rad'], [90.0, 'deg'], [3000.0, 'arcmin']]
    loads = [None, 0.0, 0.2, -0.1]                # motor load torque / Tmax (None = never computed)
    # the target may be handed over as an Angle (a sub-kind of AngularPosition, e.g. the result of angle arithmetic)
    combos = [(t, b, l, j, 'AngularPosition') for t, b, l, j in itertools.product(targets, brakes, loads, range(n))]
    combos += [(t, b, l, j, 'Angle') for t, b, l, j in itertools.product(targets[:3], brakes, loads, range(n))]
    combos = [c + (False,) for c in combos] + [c + (True,) for c in combos if c[2] == 0.2 and c[4] == 'AngularPosition']
    for tgt, br, lf, j, tcls, mid in combos:
        T = si.si(tgt[0], 'AngularPosition', tgt[1])
        B = si.si(br[0], 'Angle', br[1])
        err = 0.0 if lf is None else lf / eta * B
        ths = T - B + err
        for th, applicable in [(ths - 1e-6 * B - 1e-9, False), (ths + 1e-6 * B + 1e-9, True), (ths + 0.5 * B, True),
                               (ths + B, True), (ths + 3 * B, True), (ths - 5 * B, False)]:
            case = {'kind': 'reach', 'chain': ci, 'target': tgt, 'brake': br, 'load_frac': lf, 'enc': j, 'theta': th, 'target_class': tcls,
                    'midload': mid}
            m = sim.Model(spec)
            if mid and attach_midload(m) is None:
                continue
            # encoder target j must sit at theta `th`: set last element accordingly
            rh.set_state(m, chain, 0.0, th / chain.up[j], 0.0,
                         motor_load=None if lf is None else lf * chain.Tmax)
            rule = ReachAngularPosition(encoder=AbsoluteRotaryEncoder(m.elements[j]), powertrain=m.pt,
                                        target_angular_position=(Angle if tcls == 'Angle' else AngularPosition)(*tgt), braking_angle=Angle(*br))
            acc.transitions += 1
            try:
                got = rule.apply()
            except Exception as ex:
                acc.violation(f'C15/ReachAngularPosition/exception/{type(ex).__name__}', 'apply does not raise', case, {'exc': repr(ex)[:200]})
                continue
            acc.nstates += 1
            acc.outcomes[('reach', applicable)] += 1
            exp = 1 - (th - ths) / B if applicable else None
            has_unlisted = any(spec['elements'][i]['k'] in ('Wg', 'F') and chain.etas[i] != 1.0 for i in range(1, n))
            tag = ('eta-of-worm-slave' if (has_unlisted and lf not in (None, 0.0)) else 'plain') + ('/target-given-as-Angle' if tcls == 'Angle' else '') + \
                ('/load-on-intermediate-gear' if mid else '')
            if (got is None) != (exp is None):
                acc.violation(f'C15/ReachAngularPosition/window/{tag}', 'applicable once theta >= theta_s = target - theta_b + static error', case,
                              {'got': got, 'expected': exp, 'theta_s': ths})
            elif exp is not None and not si.close(got, exp, 1e-9, 1.0):
                acc.violation(f'C15/ReachAngularPosition/value/{tag}', 'D = 1 - (theta - theta_s)/theta_b', case,
                              {'got': got, 'expected': exp, 'theta_s': ths})
    acc.sample({'rule': 'ReachAngularPosition', 'target': [600.0, 'deg'], 'braking_angle': [2.0, 'rad'],
                'motor_load/Tmax': 0.2, 'encoder_on_element': 1, 'theta': 'theta_s -+ 1e-6 theta_b, inside, beyond'})


# --------------------------------------------- StartProportionalToAngularPosition
def check_prop(acc, ci):
    for i0_zero, pmin in ((False, None), (False, 0.6), (True, 0.6), (True, None)):
        check_prop_variant(acc, ci, i0_zero, pmin)


def check_prop_variant(acc, ci, i0_zero, pmin):
    """pmin: the optional `pwm_min` parameter; documented to be used ONLY when the computed candidate is null
    (no-load current 0 and load 0), in which case it is required."""
    spec = spec_of(ci)
    if i0_zero:
        spec['elements'][0] = dict(spec['elements'][0], i0=[0, 'A'])
    chain = sim.chain_ref(spec)
    eta = eta_total(chain)
    n = chain.n
    targets = [[3.0, 'rad'], [200.0, 'deg'], [0.25, 'rot']]
    for tgt, g, lf, j in itertools.product(targets, [2, 3.5, 1.0001], [0.0, 0.1, 0.3], range(n)):
        T = si.si(tgt[0], 'AngularPosition', tgt[1])
        cand = 1 / eta * lf * (chain.imax - chain.i0) / chain.imax + chain.i0 / chain.imax
        dmin_doc = g * cand if cand != 0 else pmin
        proposals = {}
        # (for one load an intermediate gear carries an external torque of its own as well)
        mid = (lf == 0.3 and g == 2)
        for th in (0.0, -0.5 * T, 0.3 * T, T - 1e-6 * T, T + 1e-6 * T, 2 * T):
            case = {'kind': 'prop', 'chain': ci, 'target': tgt, 'g': g, 'load_frac': lf, 'enc': j, 'theta': th,
                    'i0_zero': i0_zero, 'pwm_min': pmin, 'midload': mid}
            m = sim.Model(spec)
            if mid:
                attach_midload(m)
            rh.set_state(m, chain, 0.0, th / chain.up[j], 0.0, motor_load=lf * chain.Tmax)
            kw = {} if pmin is None else {'pwm_min': pmin}
            rule = StartProportionalToAngularPosition(encoder=AbsoluteRotaryEncoder(m.elements[j]), powertrain=m.pt,
                                                      # (for one multiplier the target is handed over as an Angle, a sub-kind)
                                                      target_angular_position=(Angle if g == 3.5 else AngularPosition)(*tgt),
                                                      pwm_min_multiplier=g, **kw)
            acc.transitions += 1
            try:
                got = rule.apply()
            except ValueError as ex:
                if dmin_doc is None:
                    acc.outcomes[('prop', 'missing-pwm_min-documented-error')] += 1
                    continue
                acc.violation('C15/StartProportional/exception/ValueError', 'apply does not raise', case, {'exc': repr(ex)[:200]})
                continue
            except Exception as ex:
                acc.violation(f'C15/StartProportional/exception/{type(ex).__name__}', 'apply does not raise', case, {'exc': repr(ex)[:200]})
                continue
            proposals[th] = got
            acc.nstates += 1
            acc.outcomes[('prop', th <= T)] += 1
            tag = 'eta-of-worm-slave' if (any(spec['elements'][i]['k'] == 'Wg' and chain.etas[i] != 1.0 for i in range(1, n)) and lf) else 'plain'
            if mid:
                tag += '/load-on-intermediate-gear'
            if th > T:
                if got is not None:
                    acc.violation('C15/StartProportional/window', 'None beyond the target', case, {'got': got})
                continue
            if got is None:
                acc.violation('C15/StartProportional/window', 'applicable while theta <= target', case, {'theta': th, 'target': T})
                continue
            dmin = proposals.get(0.0)
            if dmin_doc is None:
                acc.violation('C15/StartProportional/missing-pwm_min-accepted', 'a null candidate without pwm_min is an error', case, {'got': got})
                continue
            if th == 0.0:
                if not si.close(got, dmin_doc, 1e-9, 1.0):
                    acc.violation(f'C15/StartProportional/minimum-duty/{tag}' + ('/pwm_min-given' if pmin is not None else ''),
                                  'D_min = g * documented candidate; the pwm_min parameter only when the candidate is null', case,
                                  {'got': got, 'expected': dmin_doc})
            elif dmin is not None:
                exp = (1 - dmin) * th / T + dmin
                if not si.close(got, exp, 1e-9, 1.0):
                    acc.violation('C15/StartProportional/ramp', 'linear ramp from D_min to 1', case, {'got': got, 'expected': exp})
    acc.sample({'rule': 'StartProportionalToAngularPosition', 'target': [200.0, 'deg'], 'g': 2, 'load/Tmax': 0.1})


# ------------------------------------------------------------ StartLimitCurrent
def check_limit(acc, ci):
    spec = spec_of(ci)
    chain = sim.chain_ref(spec)
    n = chain.n
    lim_fracs = [0.3, 0.6, 0.9, 0.055, 1.0]
    speeds = [0.0, 0.2, 0.5, 0.9, 1.0, -0.3]          # motor speed / w0
    for lf, sr, cu, j in itertools.product(lim_fracs, speeds, ['A', 'mA'], range(n)):
        ilim = lf * chain.imax
        w_m = sr * chain.w0
        T = 4.0
        for th in (0.0, T - 1e-6, T + 1e-6, 3 * T):
            case = {'kind': 'limit', 'chain': ci, 'lim_frac': lf, 'speed_ratio': sr, 'cur_unit': cu, 'enc': j, 'theta': th}
            m = sim.Model(spec)
            rh.set_state(m, chain, 0.0, th / chain.up[j], w_m / chain.up[0])
            motor = m.elements[0]
            rule = StartLimitCurrent(encoder=AbsoluteRotaryEncoder(m.elements[j]), tachometer=Tachometer(motor), motor=motor,
                                     target_angular_position=(Angle if cu == 'mA' else AngularPosition)(T, 'rad'),
                                     limit_electric_current=Current(si.convert(ilim, 'Current', 'A', cu), cu))
            acc.transitions += 1
            try:
                got = rule.apply()
            except Exception as ex:
                acc.violation(f'C15/StartLimitCurrent/exception/{type(ex).__name__}', 'apply does not raise', case, {'exc': repr(ex)[:200]})
                continue
            acc.nstates += 1
            acc.outcomes[('limit', th <= T)] += 1
            if th > T:
                if got is not None:
                    acc.violation('C15/StartLimitCurrent/window', 'None beyond the target', case, {'got': got})
                continue
            if got is None:
                acc.violation('C15/StartLimitCurrent/window', 'applicable while theta <= target', case, {})
                continue
            D = float(got)
            if math.isnan(D):
                acc.outcomes['limit-nan(C14)'] += 1
                continue                     # no duty cycle reaches the limit: C14 judges NaN handling
            if abs(D) <= chain.i0 / chain.imax * (1 + 1e-9):
                pass                         # inside the dead zone the law is i = D imax (also checked below)
            # the documented guarantee does not depend on the proposal being inside [-1, 1] (clipping comes later)
            i = ref.motor_current(chain.Tmax, chain.w0, D, w_m, chain.i0, chain.imax)
            if not si.close(i, ilim, 1e-9, chain.imax):
                acc.violation('C15/StartLimitCurrent/value', 'proposal makes the motor current law yield exactly the limit', case,
                              {'D': D, 'i(D,w)': i, 'limit': ilim})
    acc.sample({'rule': 'StartLimitCurrent', 'limit/imax': 0.6, 'motor speed/w0': 0.5, 'theta': 'target -+ 1e-6'})


def check_sequential(acc, ci):
    """ONE model and ONE rule object per kind, applied to a sequence of states (time, position, speed and motor
    load all change between calls): every answer must be the documented function of the CURRENT state."""
    spec = spec_of(ci)
    chain = sim.chain_ref(spec)
    eta = eta_total(chain)
    n = chain.n
    states = [  # (t, theta_last, motor speed / w0, motor load / Tmax)
        (0.0, 0.0, 0.0, 0.1), (0.3, 0.4, 0.3, 0.3), (0.5, 3.9, 0.6, -0.05), (0.76, 9.5, 0.2, 0.2),
        (0.2, 1.0, 0.9, 0.0), (2.0, 10.5, 0.1, 0.25), (0.4, 0.2, 0.5, 0.1), (0.74, 8.7, 0.0, 0.15)]
    for order in (states, states[::-1], states[1::2] + states[0::2]):
        m = sim.Model(spec)
        motor, last = m.elements[0], m.elements[-1]
        rules = {
            'constant': ConstantPWM(timer=Timer(Time(0.25, 'sec'), TimeInterval(0.5, 'sec')), powertrain=m.pt, target_pwm_value=0.4),
            'reach': ReachAngularPosition(encoder=AbsoluteRotaryEncoder(last), powertrain=m.pt,
                                          target_angular_position=AngularPosition(10.0, 'rad'), braking_angle=Angle(2.0, 'rad')),
            'limit': StartLimitCurrent(encoder=AbsoluteRotaryEncoder(last), tachometer=Tachometer(motor), motor=motor,
                                       target_angular_position=AngularPosition(4.0, 'rad'),
                                       limit_electric_current=Current(0.6 * chain.imax, 'A')),
            'prop': StartProportionalToAngularPosition(encoder=AbsoluteRotaryEncoder(last), powertrain=m.pt,
                                                       target_angular_position=AngularPosition(3.0, 'rad'),
                                                       pwm_min_multiplier=2),
        }
        case0 = {'kind': 'sequential', 'chain': ci, 'order': [list(x) for x in order]}
        for step, (t, th, sr, lf) in enumerate(order):
            w_m = sr * chain.w0
            rh.set_state(m, chain, t, th, w_m / chain.up[0], motor_load=lf * chain.Tmax)
            case = dict(case0, step=step)
            acc.transitions += 3
            acc.nstates += 1
            got = rules['constant'].apply()
            exp = 0.4 if 0.25 <= t <= 0.75 else None
            if got != exp:
                acc.violation('C15/sequential/ConstantPWM', 'a reused rule answers for the current state', case, {'got': got, 'expected': exp, 't': t})
                return
            got = rules['reach'].apply()
            ths = 10.0 - 2.0 + lf / eta * 2.0
            exp = 1 - (th - ths) / 2.0 if th >= ths else None
            if abs(th - ths) > 1e-6 and ((got is None) != (exp is None) or (exp is not None and not si.close(got, exp, 1e-9, 1.0))):
                acc.violation('C15/sequential/ReachAngularPosition', 'a reused rule answers for the current state (current motor load torque)', case,
                              {'got': got, 'expected': exp, 'theta': th, 'theta_s': ths})
                return
            # no history is recorded in this pass, so the minimum duty cycle follows the CURRENT motor load
            if lf >= 0:
                got = rules['prop'].apply()
                dmin = 2 * (1 / eta * lf * (chain.imax - chain.i0) / chain.imax + chain.i0 / chain.imax)
                exp = (1 - dmin) * th / 3.0 + dmin if th <= 3.0 else None
                if abs(th - 3.0) > 1e-6 and ((got is None) != (exp is None) or (exp is not None and not si.close(got, exp, 1e-9, 1.0))):
                    acc.violation('C15/sequential/StartProportionalToAngularPosition', 'a reused rule answers for the current state (current motor load torque, no history)', case,
                                  {'got': got, 'expected': exp, 'theta': th, 'load/Tmax': lf})
                    return
            got = rules['limit'].apply()
            if th > 4.0:
                if got is not None:
                    acc.violation('C15/sequential/StartLimitCurrent', 'None beyond the target', case, {'got': got})
                    return
            elif got is None:
                acc.violation('C15/sequential/StartLimitCurrent', 'applicable while theta <= target', case, {})
                return
            elif -1 <= float(got) <= 1:
                i = ref.motor_current(chain.Tmax, chain.w0, float(got), w_m, chain.i0, chain.imax)
                if not si.close(i, 0.6 * chain.imax, 1e-9, chain.imax):
                    acc.violation('C15/sequential/StartLimitCurrent', 'a reused rule answers for the current speed', case,
                                  {'D': float(got), 'i(D,w)': i, 'limit': 0.6 * chain.imax})
                    return
    acc.outcomes[('sequential', ci)] += 1
    acc.sample({'rule': 'one rule object of each kind applied to a sequence of 8 states in 3 orders', 'chain': ci})


def check_limit_sim(acc, ci, lf, load_frac, locking=False):
    spec = spec_of(ci)
    if locking:
        # a self-locking worm chain started against the load: it is clamped while the rule is in force
        spec = menu.assign([('J', 'Wg'), ('W', 'Ww')], motor=menu.MOTOR_CUR, locking=True,
                           init={'theta': [0.0, 'rad'], 'w': [-1.5, 'rad/s'] if lf > 0.5 else [0.0, 'rad/s']})
    chain = sim.chain_ref(spec)
    st = menu.stall_at_output(spec)
    spec['load'] = ['const', load_frac * st]
    ilim = lf * chain.imax
    case = {'kind': 'limsim', 'chain': ci, 'lim_frac': lf, 'load_frac': load_frac, 'locking': locking}
    m = sim.Model(spec)
    motor = m.elements[0]
    log = []
    ctl = PWMControl(powertrain=m.pt)
    target = 1e9
    rule = StartLimitCurrent(encoder=AbsoluteRotaryEncoder(m.elements[-1]), tachometer=Tachometer(motor), motor=motor,
                             target_angular_position=AngularPosition(target, 'rad'),
                             limit_electric_current=Current(ilim, 'A'))
    ctl.add_rule(rh.Proxy(rule, m, log, 0))
    try:
        m.run([0.0078125, 'sec'], [0.0078125 * 39, 'sec'], control=ctl)
    except Exception as ex:
        acc.violation(f'C15/StartLimitCurrent/sim-error/{type(ex).__name__}', 'controlled simulation runs', case, {'exc': repr(ex)[:200]})
        return
    acc.executions += 1
    obs = m.observe()
    pwm = obs['el'][0]['pwm']
    cur = obs['el'][0]['electric current']
    lim = chain.i0 / chain.imax
    hits = 0
    for k in range(len(pwm)):
        acc.transitions += 1
        D = pwm[k]
        if not (-1 < D < 1) or abs(D) <= lim * (1 + 1e-9):
            continue
        hits += 1
        acc.state(('limsim', ci, lf, load_frac, k, D))
        if not si.close(cur[k], ilim, 1e-9, chain.imax):
            acc.violation('C15/StartLimitCurrent/sim-current' + ('/self-locking-chain' if locking else ''), 'while StartLimitCurrent is in force and not clipped the recorded current equals the limit', case,
                          {'instant': k, 'current': cur[k], 'limit': ilim, 'D': D})
            break
    acc.outcomes[('limsim', 'in-force' if hits else 'never')] += 1
    acc.cases += 1


def run_shard(shard, tier):
    acc = Acc()
    ci, kind = shard['chain'], shard['rule']
    if kind == 'constant':
        check_constant(acc, ci)
    elif kind == 'reach':
        check_reach(acc, ci)
    elif kind == 'prop':
        check_prop(acc, ci)
    elif kind == 'limit':
        check_limit(acc, ci)
    else:
        check_sequential(acc, ci)
        for lf in (0.3, 0.6, 0.9):
            for load in (0.05, 0.3, 0.6):
                check_limit_sim(acc, ci, lf, load)
            for load in (0.6, 3.0, 12.0):
                check_limit_sim(acc, ci, lf, load, locking=True)
        acc.sample({'simulation': 'StartLimitCurrent, tachometer on motor', 'limit/imax': 0.6, 'load/stall': 0.3, 'instants': 40})
    acc.executions += acc.nstates
    acc.cases += acc.nstates
    return acc


def replay(case):
    acc = Acc()
    k = case.get('kind')
    if k == 'sequential':
        check_sequential(acc, case['chain'])
        return acc.violations
    if k == 'limsim':
        check_limit_sim(acc, case['chain'], case['lim_frac'], case['load_frac'], locking=case.get('locking', False))
        return acc.violations
    if k in ('constant', 'reach', 'prop', 'limit'):
        sub = Acc()
        {'constant': check_constant, 'reach': check_reach, 'prop': check_prop, 'limit': check_limit}[k](sub, case['chain'])
        keys = [x for x in case if x not in ('kind',)]
        return [v for v in sub.violations if all(v['case'].get(x) == case[x] for x in keys)] or \
               ([] if not sub.violations else [])
    return run_shard(case['shard'], 'quick').violations
