"""C06  Quantity arithmetic is dimensionally sound; subtraction undoes addition.

Exhaustive over every ordered pair of the 13 kinds plus int/float (15 x 15),
each of + - * /, every unit choice of both operands, and a magnitude alphabet.
The oracle is a dimension algebra written here (no gearpy), plus the inverse
laws (a+b)-b == a and a-b == -(b-a) wherever both sides return.
"""
import operator
from fractions import Fraction as F

import gearpy.units as gu

from gmc import si
from gmc.core import Acc

ID = 'C06'
RULE = ('full product: ordered operand-kind pair (15x15) x operator (4) x unit of each '
        'operand x magnitude of each operand; distinct by construction; non-trivial = '
        'the operation returned a value (not TypeError)')
ASSUMPTIONS = [
    'TypeError is always an admissible outcome (the statement says so)',
    'ValueError is admissible only when an operand or the dictated result violates a sign constraint; ZeroDivisionError only for a zero divisor',
    'for cross-kind products/quotients either member of a sub-kind family (Angle/AngularPosition, TimeInterval/Time) is accepted; sums and differences follow the sub-kind rule of the statement',
    'magnitudes compared at 1e-12 relative in SI through gmc/si.py',
]
EXPLANATION = 'explicit enumeration; oracle = dimension algebra + inverse laws'

# dims: (time, length, mass, current), angular tag
DIMS = {
    'AngularPosition': ((0, 0, 0, 0), 1), 'Angle': ((0, 0, 0, 0), 1),
    'AngularSpeed': ((-1, 0, 0, 0), 1), 'AngularAcceleration': ((-2, 0, 0, 0), 1),
    'InertiaMoment': ((0, 2, 1, 0), 0), 'Torque': ((-2, 2, 1, 0), 0),
    'Time': ((1, 0, 0, 0), 0), 'TimeInterval': ((1, 0, 0, 0), 0),
    'Length': ((0, 1, 0, 0), 0), 'Surface': ((0, 2, 0, 0), 0),
    'Force': ((-2, 1, 1, 0), 0), 'Stress': ((-2, -1, 1, 0), 0),
    'Current': ((0, 0, 0, 1), 0),
    'int': ((0, 0, 0, 0), 0), 'float': ((0, 0, 0, 0), 0),
}
FAMILY = {'Angle': 'AngularPosition', 'AngularPosition': 'AngularPosition',
          'TimeInterval': 'Time', 'Time': 'Time'}
OPS = {'+': operator.add, '-': operator.sub, '*': operator.mul, '/': operator.truediv}
OPERANDS = si.KINDS + ['int', 'float']


def bounds(tier):
    return {'magnitudes': mags(tier), 'operand_kinds': len(OPERANDS), 'ops': list(OPS)}


def mags(tier):
    return [0.5, 2.0, 7.0] if tier == 'quick' else [0.5, 2.0, 7.0, 1e-3, 123.456, 3e4, 1.0]


def operand_values(kind, tier):
    base = mags(tier)
    if kind == 'int':
        return [2, 7, -3, 0] if tier == 'quick' else [1, 2, 7, -3, -1, 0]
    if kind == 'float':
        return base + [-b for b in base[:2]] + [0.0]
    c = si.CONSTRAINT[kind]
    out = list(base) + [3, True]           # 3: an integer-valued quantity; True: a bool is an int, the constructors take it as 1
    if c is None:
        out += [-b for b in base[:2]] + [0.0]
    elif c == 'nonneg':
        out += [0.0]
    return out


def units_of(kind):
    return si.UNITS[kind] if kind in si.UNITS else [None]


def shards(tier):
    out = [{'a': a, 'b': b} for a in OPERANDS for b in OPERANDS]
    # the same enumeration in a process that has already simulated (complete, stopped and aborted runs): the diagonal
    out += [{'a': a, 'b': a, 'disturbed': True} for a in OPERANDS if a not in ('int', 'float')]
    return out


def probe():
    """A few operations (called from inside a running simulation's load function)."""
    bad = []
    try:
        r = gu.TimeInterval(40, 'ms') - gu.TimeInterval(1, 'sec')
        bad.append(f'TimeInterval(40 ms) - TimeInterval(1 sec) returned {r}')
    except ValueError:
        pass
    r = gu.AngularSpeed(2, 'rad/s') * gu.Time(3, 'sec')
    if type(r).__name__ != 'AngularPosition' or abs(si.q_si(r) - 6.0) > 1e-12:
        bad.append(f'AngularSpeed * Time = {r!r}')
    try:
        gu.Length(1, 'm') + gu.Force(1, 'N')
        bad.append('Length + Force accepted')
    except TypeError:
        pass
    return bad


def make(kind, value, unit):
    if kind == 'int':
        return int(value)
    if kind == 'float':
        return float(value)
    return getattr(gu, kind)(value, unit)


def mag(kind, value, unit):
    if kind in ('int', 'float'):
        return F(value)
    return si.si_exact(value, kind, unit)


def dictated(op, ka, kb):
    """Kinds the result may have, by dimensional analysis.  Returns a set of
    admissible kind names ('number' for a plain number); empty set = no
    quantity kind has that dimension, so only TypeError is admissible."""
    (da, ta), (db, tb) = DIMS[ka], DIMS[kb]
    num_a, num_b = ka in ('int', 'float'), kb in ('int', 'float')
    if op in '+-':
        if num_a or num_b:
            return {'number'} if (num_a and num_b) else set()
        if FAMILY.get(ka, ka) != FAMILY.get(kb, kb):
            return set()
        if ka == kb:
            return {ka}
        return {FAMILY[ka]}           # mixed sub-kind/parent -> parent
    if op == '*':
        d = tuple(x + y for x, y in zip(da, db))
        t = ta + tb
    else:
        d = tuple(x - y for x, y in zip(da, db))
        t = ta - tb
    if num_a and num_b:
        return {'number'}
    if num_b:                       # quantity (*|/) number -> same kind
        return {ka}
    if num_a:
        return {kb} if op == '*' else set()
    if op == '/' and FAMILY.get(ka, ka) == FAMILY.get(kb, kb):
        return {'number'}
    out = set()
    for k, (dk, tk) in DIMS.items():
        if k in ('int', 'float'):
            continue
        if dk == d:
            if d == (0, 0, 0, 0):
                if t == 1 and tk == 1:
                    out.add(k)
            elif tk == t or (tk == 1 and t == 0):
                # radians are dimensionless: torque/inertia may name an angular kind
                out.add(k)
    return out


def violates(kind, m):
    c = si.CONSTRAINT.get(kind)
    return (c == 'pos' and m <= 0) or (c == 'nonneg' and m < 0)


def result_desc(r):
    if isinstance(r, bool):
        return ('bool', r)
    if isinstance(r, (int, float)):
        return ('number', F(r))
    k = type(r).__name__
    if k in si.UNITS and hasattr(r, 'unit'):
        return (k, si.si_exact(r.value, k, r.unit))
    return (k, None)


def apply(op, a, b):
    try:
        return ('ok', OPS[op](a, b))
    except TypeError:
        return ('TypeError', None)
    except ValueError:
        return ('ValueError', None)
    except ZeroDivisionError:
        return ('ZeroDivisionError', None)
    except Exception as e:                      # anything else is a violation
        return (type(e).__name__, None)


def close(x, y, scale):
    return abs(x - y) <= F(1, 10 ** 12) * max(abs(x), abs(y), scale)


def make_preconverted(kind, value, unit):
    """The same quantity, but built in another unit and converted in place (a history on the operand)."""
    if kind in ('int', 'float'):
        return make(kind, value, unit)
    units = si.UNITS[kind]
    u0 = units[(units.index(unit) + 1) % len(units)]
    q = getattr(gu, kind)(si.convert(value, kind, unit, u0), u0)
    q.to(unit, inplace=True)
    return q


def check_one(acc, op, ka, ua, va, kb, ub, vb, pre=False):
    case = {'kind': 'op', 'op': op, 'a': [ka, va, ua], 'b': [kb, vb, ub], 'pre': pre}
    pair = f'{ka}{op}{kb}' + ('/operands-converted-in-place' if pre in (True, 'inplace') else (f'/operands-are-{pre}-clones' if pre else ''))
    if pre in ('copy', 'deepcopy', 'pickle'):
        # the operands are clones of fresh quantities (copy.copy / copy.deepcopy / pickle round trip): equal objects, same laws
        import copy
        import pickle
        clone = {'copy': copy.copy, 'deepcopy': copy.deepcopy, 'pickle': lambda q: pickle.loads(pickle.dumps(q))}[pre]
        a, b = clone(make(ka, va, ua)), clone(make(kb, vb, ub))
    elif pre:
        try:
            a, b = make_preconverted(ka, va, ua), make_preconverted(kb, vb, ub)
        except ValueError:
            return None
        # the in-place conversion rounds: use the operands' actual values as the reference inputs
        va = a.value if hasattr(a, 'unit') else va
        vb = b.value if hasattr(b, 'unit') else vb
    else:
        a, b = make(ka, va, ua), make(kb, vb, ub)
    ma, mb = mag(ka, va, ua), mag(kb, vb, ub)
    acc.transitions += 1
    status, r = apply(op, a, b)
    acc.outcomes[status] += 1
    allowed = dictated(op, ka, kb)
    if status == 'TypeError':
        return None
    if op == '+':
        mexp = ma + mb
    elif op == '-':
        mexp = ma - mb
    elif op == '*':
        mexp = ma * mb
    else:
        mexp = ma / mb if mb != 0 else None
    if status == 'ZeroDivisionError':
        if not (op == '/' and mb == 0):
            acc.violation(f'C06/spurious-ZeroDivisionError/{pair}', 'ZeroDivisionError only for zero divisor', case, {})
        return None
    if status == 'ValueError':
        ok = False
        # a sign-constrained kind scaled by a negative (or, for strictly positive
        # kinds, zero) number: rejecting the multiplier is admissible
        for kq, kn, vn in ((ka, kb, vb), (kb, ka, va)):
            if kn in ('int', 'float') and op in '*/' and si.CONSTRAINT.get(kq):
                if vn < 0 or (vn == 0 and si.CONSTRAINT[kq] == 'pos'):
                    ok = True
        if mexp is not None:
            # rounding slack at the constraint boundary for sums/differences
            slack = F(1, 10 ** 12) * max(abs(ma), abs(mb)) if op in '+-' else 0
            for k in allowed:
                if k == 'number':
                    continue
                exact_zero_ok = (si.CONSTRAINT.get(k) == 'nonneg' and ua == ub and mexp == 0)
                if violates(k, mexp) or (si.CONSTRAINT.get(k) and abs(mexp) <= slack and not exact_zero_ok):
                    ok = True
        if not ok:
            acc.violation(f'C06/spurious-ValueError/{pair}',
                          'ValueError only when the dictated result violates its sign constraint',
                          case, {'dictated': sorted(allowed), 'expected_si': float(mexp) if mexp is not None else None})
        return None
    if status != 'ok':
        acc.violation(f'C06/unexpected-exception/{status}/{pair}', 'exception class', case, {})
        return None
    if (ka in ('int', 'float')) and (kb in ('int', 'float')):
        return None                   # plain Python arithmetic, not gearpy
    if r is None:
        acc.violation(f'C06/returns-None/{pair}', 'result is a quantity or number', case, {})
        return None
    rk, rm = result_desc(r)
    if op == '/' and mb == 0:
        acc.violation(f'C06/zero-division-returned/{pair}', 'zero divisor', case, {'result': str(r)})
        return None
    # family acceptance for cross-kind products/quotients
    fam_ok = set(allowed)
    if op in '*/' and not (kb in ('int', 'float') or ka in ('int', 'float')):
        for k in list(allowed):
            for kk, ff in FAMILY.items():
                if FAMILY.get(k) == ff:
                    fam_ok.add(kk)
    if rk not in fam_ok:
        acc.violation(f'C06/kind/{pair}', 'result kind dictated by dimensional analysis', case,
                      {'got_kind': rk, 'dictated': sorted(allowed)})
        return None
    if rm is None or not close(rm, mexp, max(abs(ma), abs(mb)) if op in '+-' else 0):
        acc.violation(f'C06/magnitude/{pair}', 'SI magnitude of result = op on SI magnitudes', case,
                      {'got_si': float(rm) if rm is not None else None, 'expected_si': float(mexp),
                       'result': str(r)})
    if rk != 'number' and violates(rk, rm):
        acc.violation(f'C06/invalid-result/{pair}', 'result violates its own sign constraint', case,
                      {'result': str(r)})
    return r


def check_laws(acc, ka, ua, va, kb, ub, vb):
    """(a+b)-b == a ;  a-b == -(b-a)  whenever both sides are defined."""
    case = {'kind': 'law', 'a': [ka, va, ua], 'b': [kb, vb, ub]}
    pair = f'{ka},{kb}'
    a, b = make(ka, va, ua), make(kb, vb, ub)
    ma, mb = mag(ka, va, ua), mag(kb, vb, ub)
    scale = max(abs(ma), abs(mb))
    s, r = apply('+', a, b)
    if s == 'ok' and r is not None:
        s2, r2 = apply('-', r, b)
        acc.transitions += 2
        if s2 == 'ok' and r2 is not None:
            k2, m2 = result_desc(r2)
            if m2 is None or not close(m2, ma, scale):
                acc.violation(f'C06/law-add-sub/{pair}', '(a+b)-b == a', case,
                              {'a_si': float(ma), 'got_si': float(m2) if m2 is not None else None})
    s, r = apply('-', a, b)
    s3, r3 = apply('-', b, a)
    acc.transitions += 2
    if s == 'ok' and s3 == 'ok' and r is not None and r3 is not None:
        s4, r4 = apply('neg', r3, None) if False else (None, None)
        try:
            n = -r3
        except (ValueError, TypeError):
            return
        k1, m1 = result_desc(r)
        k4, m4 = result_desc(n)
        if m1 is None or m4 is None or not close(m1, m4, scale):
            acc.violation(f'C06/law-antisym/{pair}', 'a-b == -(b-a)', case,
                          {'a_minus_b_si': float(m1) if m1 is not None else None,
                           'neg_b_minus_a_si': float(m4) if m4 is not None else None})


def run_shard(shard, tier):
    if shard.get('disturbed'):
        from gmc import sim
        inside = sim.disturb_process(probe)
        acc = run_shard({k: v for k, v in shard.items() if k != 'disturbed'}, tier)
        for f in inside + probe():
            acc.violation('C06/probe', 'kind and magnitude laws', {'kind': 'shard', 'shard': shard}, {'failure': f})
        acc.relabel('/after-simulations-in-this-process', shard)
        return acc
    acc = Acc()
    ka, kb = shard['a'], shard['b']
    va_list, vb_list = operand_values(ka, tier), operand_values(kb, tier)
    same_family = (ka not in ('int', 'float') and kb not in ('int', 'float')
                   and FAMILY.get(ka, ka) == FAMILY.get(kb, kb))
    first = True
    for ua in units_of(ka):
        for ub in units_of(kb):
            for va in va_list:
                for vb in vb_list:
                    for op in OPS:
                        check_one(acc, op, ka, ua, va, kb, ub, vb)
                    if (va == va_list[0] or vb == vb_list[0]) and not (ka in ('int', 'float') and kb in ('int', 'float')):
                        for op in OPS:
                            check_one(acc, op, ka, ua, va, kb, ub, vb, pre=True)
                        how = ('copy', 'deepcopy', 'pickle')[(len(ua or '') + len(ub or '') + int(va == va_list[0])) % 3]
                        for op in OPS:
                            check_one(acc, op, ka, ua, va, kb, ub, vb, pre=how)
                    if same_family:
                        check_laws(acc, ka, ua, va, kb, ub, vb)
                    acc.nstates += 1
                    acc.cases += 1
                    acc.executions += 1
                    if first:
                        acc.sample({'a': [ka, va, ua], 'b': [kb, vb, ub], 'ops': list(OPS),
                                    'dictated': {o: sorted(dictated(o, ka, kb)) for o in OPS}})
                        first = False
    return acc


def replay(case):
    acc = Acc()
    if case['kind'] == 'op':
        check_one(acc, case['op'], case['a'][0], case['a'][2], case['a'][1],
                  case['b'][0], case['b'][2], case['b'][1], pre=case.get('pre', False))
    elif case['kind'] == 'law':
        check_laws(acc, case['a'][0], case['a'][2], case['a'][1],
                   case['b'][0], case['b'][2], case['b'][1])
    else:
        return run_shard(case['shard'], 'quick').violations
    return acc.violations
