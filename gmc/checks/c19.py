"""C19  Sign-constrained quantities and parameters can never be invalid."""
import itertools
import math
import operator

import gearpy.units as gu
from gearpy.mechanical_objects import DCMotor, HelicalGear, SpurGear, WormGear, WormWheel
from gearpy.units import Angle, AngularSpeed, Current, InertiaMoment, Length, Stress, Torque

from gmc import si
from gmc.core import Acc

ID = 'C19'
RULE = ('ALL straight-line programs up to the depth over a pool of live quantity objects, per constrained kind (Length, Surface, '
        'InertiaMoment, TimeInterval, Angle) with its partner kinds: steps = + - * / between pool objects and with numbers '
        '{-2,-1,0,0.5,2}, abs, neg, to(u), to(u, inplace) for every unit; results join the pool; initial magnitudes {smallest '
        'subnormal, 1e-3, 1, 1e3}; BFS deduplicated on the sorted (kind, unit, value bits) of the pool; after EVERY step every live '
        'object is inspected; plus component constructors x constrained parameter x {valid, 0, negative, boundary, boundary +- 1 ulp} x units; '
        'non-trivial = the step returned a new object or mutated one')
ASSUMPTIONS = ['an operation may return a valid object or raise ValueError / TypeError / ZeroDivisionError / OverflowError; anything else is a violation',
               'sub-kinds keep a second copy of value and unit: agreement is observed through (x*1).value and x.to(x.unit).value',
               'constructor boundaries are probed at +-1 ulp only in the unit the limit is stated in, +-1e-6 relative in other units',
               'no-load current exactly 0 is not judged (documentation says "positive or null")']
EXPLANATION = 'explicit-state BFS over operation sequences on live objects; invariant on every reachable object'

TINY = 5e-324
MAGS = [TINY, 1e-3, 1, 1e3]               # 1 is an int on purpose
NUMS = [-2, -1, 0, 0.5, 2]
FAMILIES = {
    'Length': ['Length', 'Surface'],
    'Surface': ['Surface'],
    'InertiaMoment': ['InertiaMoment'],
    'TimeInterval': ['TimeInterval', 'Time'],
    'Angle': ['Angle', 'AngularPosition'],
}
OK_EXC = (ValueError, TypeError, ZeroDivisionError, OverflowError)
BIN = {'+': operator.add, '-': operator.sub, '*': operator.mul, '/': operator.truediv}


def bounds(tier):
    return {'program_depth': 2 if tier == 'quick' else '3 on all roots, 4 on one root per family', 'initial_magnitudes': MAGS, 'numbers': NUMS,
            'families': {k: v for k, v in FAMILIES.items()}}


def is_quantity(x):
    return type(x).__name__ in si.UNITS and hasattr(x, 'unit')


def valid(q):
    c = si.CONSTRAINT[type(q).__name__]
    v = q.value
    if isinstance(v, float) and math.isnan(v):
        return False
    if c == 'pos':
        return v > 0
    if c == 'nonneg':
        return v >= 0
    return True


def steps(pool):
    """All steps applicable to the pool: (label, thunk-args)."""
    n = len(pool)
    for i in range(n):
        for j in range(n):
            for op in BIN:
                yield ('bin', op, i, j)
    for i in range(n):
        for k in NUMS:
            yield ('mulnum', i, k)
            yield ('rmulnum', i, k)
            yield ('divnum', i, k)
        yield ('abs', i)
        yield ('neg', i)
        yield ('clone', i, 'copy')
        yield ('clone', i, 'deepcopy')
        yield ('clone', i, 'pickle')
        for u in si.UNITS[type(pool[i]).__name__]:
            yield ('to', i, u)
            yield ('to!', i, u)


def do_step(pool, st):
    k = st[0]
    if k == 'bin':
        return BIN[st[1]](pool[st[2]], pool[st[3]])
    if k == 'mulnum':
        return pool[st[1]] * st[2]
    if k == 'rmulnum':
        return st[2] * pool[st[1]]
    if k == 'divnum':
        return pool[st[1]] / st[2]
    if k == 'abs':
        return abs(pool[st[1]])
    if k == 'neg':
        return -pool[st[1]]
    if k == 'clone':
        import copy
        import pickle
        return {'copy': copy.copy, 'deepcopy': copy.deepcopy, 'pickle': lambda q: pickle.loads(pickle.dumps(q))}[st[2]](pool[st[1]])
    if k == 'to':
        return pool[st[1]].to(st[2])
    if k == 'to!':
        return pool[st[1]].to(st[2], inplace=True)
    raise ValueError(k)


def build(root, prog):
    """Fresh objects; replay the program; returns (pool, outcome of last step)."""
    kind, (v1, u1), (v2, u2) = root
    K = getattr(gu, kind)
    pool = [K(v1, u1), K(v2, u2)]
    last = None
    for st in prog:
        try:
            r = do_step(pool, st)
            last = ('ok', r)
            if is_quantity(r) and not any(r is p for p in pool):
                pool.append(r)
        except OK_EXC as e:
            last = (type(e).__name__, None)
        except Exception as e:
            last = ('BAD:' + type(e).__name__, None)
    return pool, last


def canon(pool):
    return tuple(sorted((type(q).__name__, q.unit, float(q.value).hex() if isinstance(q.value, float) else repr(q.value))
                        for q in pool))


def inspect(acc, case, pool, last, st, n_before=None, invalid_before=()):
    opname = st[0] if st[0] != 'bin' else st[1]
    if last and last[0].startswith('BAD:'):
        acc.violation(f'C19/program/unexpected-exception/{last[0][4:]}/{opname}', 'an operation yields a valid quantity or raises ValueError', case, {})
    if last and last[0] == 'ok' and last[1] is None:
        acc.violation(f'C19/program/returned-None/{opname}', 'an operation yields a valid quantity or raises ValueError', case, {})
    for idx, q in enumerate(pool):
        kind = type(q).__name__
        if not valid(q):
            if idx in invalid_before:
                continue                  # already reported when it became invalid
            how = 'mutated-in-place' if st[0] == 'to!' and idx == st[1] else 'returned'
            acc.violation(f'C19/program/invalid-live-object/{kind}/{opname}/{how}', 'a sign-constrained quantity can never exist in violation of its constraint', case,
                          {'object': idx, 'value': q.value, 'unit': q.unit})
            continue
        if kind in ('Angle', 'TimeInterval'):
            # second copy kept by the sub-kind must agree with what arithmetic uses
            try:
                a = (q * 1).value
                b = q.to(q.unit).value
                u = q.to(q.unit).unit
            except OK_EXC:
                continue
            except Exception as ex:
                acc.violation(f'C19/program/unexpected-exception/{type(ex).__name__}/{opname}/object-unusable', 'an operation yields a valid quantity or raises ValueError', case,
                              {'object': idx, 'exc': repr(ex)[:160]})
                continue
            if a != q.value or b != q.value or u != q.unit or (q * 1).unit != q.unit:
                acc.violation(f'C19/program/subkind-copies-disagree/{kind}/{opname}', 'value/unit observed through arithmetic equal the public ones', case,
                              {'object': idx, 'value': q.value, '(x*1).value': a, 'x.to(unit).value': b})


def bfs(acc, root, depth):
    pool, _ = build(root, [])
    seen = {canon(pool)}
    acc.state(canon(pool))
    frontier = [[]]
    for d in range(depth):
        nxt = []
        for prog in frontier:
            pool0, _ = build(root, prog)
            inv0 = tuple(i for i, q in enumerate(pool0) if not valid(q))
            if inv0:
                continue                  # a violated state is reported once and not extended
            for st in list(steps(pool0)):
                p2 = prog + [st]
                pool, last = build(root, p2)
                acc.transitions += 1
                acc.executions += 1
                acc.outcomes[last[0] if last else 'none'] += 1
                inspect(acc, {'kind': 'prog', 'root': root, 'prog': p2}, pool, last, st, len(pool0), inv0)
                k = canon(pool)
                if k not in seen:
                    seen.add(k)
                    acc.state(k)
                    nxt.append(p2)
        frontier = nxt
    return len(seen)


# -- constructors ---------------------------------------------------------------------
J1 = InertiaMoment(1, 'gm^2')


def ctor_cases():
    """(label, thunk, expected 'ok'|'ValueError'|'either')"""
    out = []

    def motor(**kw):
        base = dict(name='m', inertia_moment=J1, no_load_speed=AngularSpeed(1000, 'rpm'), maximum_torque=Torque(1, 'Nm'))
        base.update(kw)
        return lambda: DCMotor(**base)

    for u in si.UNITS['AngularSpeed']:
        for v, exp in ((5.0, 'ok'), (0, 'ValueError'), (0.0, 'ValueError'), (-3.0, 'ValueError'), (TINY, 'ok'), (-TINY, 'ValueError')):
            out.append((f'DCMotor.no_load_speed={v} {u}', motor(no_load_speed=AngularSpeed(v, u)), exp))
    for u in si.UNITS['Torque']:
        for v, exp in ((5.0, 'ok'), (0, 'ValueError'), (-3.0, 'ValueError'), (TINY, 'ok'), (-TINY, 'ValueError')):
            out.append((f'DCMotor.maximum_torque={v} {u}', motor(maximum_torque=Torque(v, u)), exp))
    for u0 in si.UNITS['Current']:
        for um in si.UNITS['Current']:
            f0, fm = si.factor('Current', u0), si.factor('Current', um)
            for i0, im, exp in ((0.1, 2.0, 'ok'), (-0.1, 2.0, 'ValueError'), (0.0, 2.0, 'either'), (0.1, 0.0, 'ValueError'),
                                (0.1, -2.0, 'ValueError'), (2.0, 2.0, 'ValueError'), (3.0, 2.0, 'ValueError'),
                                (2.0 * (1 - 1e-6), 2.0, 'ok'), (2.0 * (1 + 1e-6), 2.0, 'ValueError')):
                out.append((f'DCMotor.currents i0={i0}A in {u0}, imax={im}A in {um}',
                            motor(no_load_electric_current=Current(i0 / f0, u0), maximum_electric_current=Current(im / fm, um)), exp))
    for v, exp in ((math.nextafter(2.0, 0), 'ok'), (2.0, 'ValueError'), (math.nextafter(2.0, 3), 'ValueError')):
        out.append((f'DCMotor.currents i0={v} A (1 ulp), imax=2 A',
                    motor(no_load_electric_current=Current(v, 'A'), maximum_electric_current=Current(2.0, 'A')), exp))
    for u in si.UNITS['Stress']:
        for v, exp in ((200.0, 'ok'), (0, 'ValueError'), (-1.0, 'ValueError'), (TINY, 'ok')):
            out.append((f'SpurGear.elastic_modulus={v} {u}',
                        (lambda v=v, u=u: SpurGear(name='g', n_teeth=20, inertia_moment=J1, module=Length(1, 'mm'),
                                                   face_width=Length(5, 'mm'), elastic_modulus=Stress(v, u))), exp))
    for z, exp in ((10, 'ok'), (9, 'ValueError'), (0, 'ValueError'), (-5, 'ValueError'), (11, 'ok')):
        out.append((f'SpurGear.n_teeth={z}', (lambda z=z: SpurGear(name='g', n_teeth=z, inertia_moment=J1)), exp))
        out.append((f'HelicalGear.n_teeth={z}', (lambda z=z: HelicalGear(name='g', n_teeth=z, inertia_moment=J1, helix_angle=Angle(20, 'deg'))), exp))
        out.append((f'WormWheel.n_teeth={z}', (lambda z=z: WormWheel(name='g', n_teeth=z, inertia_moment=J1, helix_angle=Angle(10, 'deg'), pressure_angle=Angle(20, 'deg'))), exp))
    for s, exp in ((1, 'ok'), (0, 'ValueError'), (-1, 'ValueError')):
        out.append((f'WormGear.n_starts={s}', (lambda s=s: WormGear(name='g', n_starts=s, inertia_moment=J1, helix_angle=Angle(10, 'deg'), pressure_angle=Angle(20, 'deg'))), exp))
    # helix angle < 90 deg
    for v, exp in ((89.0, 'ok'), (math.nextafter(90.0, 0), 'ok'), (90.0, 'ValueError'), (math.nextafter(90.0, 100), 'ValueError'), (120.0, 'ValueError')):
        out.append((f'HelicalGear.helix_angle={v} deg', (lambda v=v: HelicalGear(name='g', n_teeth=20, inertia_moment=J1, helix_angle=Angle(v, 'deg'))), exp))
    for u in si.UNITS['Angle']:
        f = si.factor('Angle', u) / si.factor('Angle', 'deg')
        for deg, exp in ((90.0 * (1 - 1e-6), 'ok'), (90.0 * (1 + 1e-6), 'ValueError'), (45.0, 'ok'), (200.0, 'ValueError')):
            out.append((f'HelicalGear.helix_angle={deg} deg in {u}',
                        (lambda deg=deg, u=u, f=f: HelicalGear(name='g', n_teeth=20, inertia_moment=J1, helix_angle=Angle(deg / f, u))), exp))
    # worm limit per pressure angle
    for alpha, lim in ((14.5, 16.0), (20.0, 25.0), (25.0, 35.0), (30.0, 45.0)):
        for cls in ('WormGear', 'WormWheel'):
            for v, exp in ((lim - 1, 'ok'), (lim, 'ok'), (math.nextafter(lim, 100), 'ValueError'), (lim + 1, 'ValueError'), (95.0, 'ValueError')):
                def mk(cls=cls, v=v, alpha=alpha):
                    if cls == 'WormGear':
                        return WormGear(name='g', n_starts=1, inertia_moment=J1, helix_angle=Angle(v, 'deg'), pressure_angle=Angle(alpha, 'deg'))
                    return WormWheel(name='g', n_teeth=30, inertia_moment=J1, helix_angle=Angle(v, 'deg'), pressure_angle=Angle(alpha, 'deg'))
                out.append((f'{cls}.helix_angle={v} deg @alpha={alpha}', mk, exp))
            for u in ('rad', 'rot', 'arcmin'):
                f = si.factor('Angle', u) / si.factor('Angle', 'deg')
                for deg, exp in ((lim * (1 - 1e-6), 'ok'), (lim * (1 + 1e-6), 'ValueError')):
                    def mk2(cls=cls, deg=deg, alpha=alpha, u=u, f=f):
                        if cls == 'WormGear':
                            return WormGear(name='g', n_starts=1, inertia_moment=J1, helix_angle=Angle(deg / f, u), pressure_angle=Angle(alpha, 'deg'))
                        return WormWheel(name='g', n_teeth=30, inertia_moment=J1, helix_angle=Angle(deg / f, u), pressure_angle=Angle(alpha, 'deg'))
                    out.append((f'{cls}.helix_angle={deg} deg in {u} @alpha={alpha}', mk2, exp))
    # the same limits with the pressure angle itself written in another unit (converted by gearpy, or divided by the SI factor)
    for alpha, lim in ((14.5, 16.0), (20.0, 25.0), (25.0, 35.0), (30.0, 45.0)):
        for cls in ('WormGear', 'WormWheel'):
            for u in si.UNITS['Angle']:
                if u == 'deg':
                    continue
                f = si.factor('Angle', u) / si.factor('Angle', 'deg')
                for how in ('to', 'div'):
                    for v, exp in ((lim - 1, 'ok'), (lim, 'ok'), (lim + 1, 'ValueError'), (lim + 8, 'ValueError')):
                        def mk4(cls=cls, v=v, alpha=alpha, u=u, f=f, how=how):
                            pa = Angle(alpha, 'deg').to(u) if how == 'to' else Angle(alpha / f, u)
                            if cls == 'WormGear':
                                return WormGear(name='g', n_starts=1, inertia_moment=J1, helix_angle=Angle(v, 'deg'), pressure_angle=pa)
                            return WormWheel(name='g', n_teeth=30, inertia_moment=J1, helix_angle=Angle(v, 'deg'), pressure_angle=pa)
                        out.append((f'{cls}.helix_angle={v} deg @alpha={alpha} deg written in {u} ({how})', mk4, exp))
    # several parameters wrong at once: every combination of {valid, null, negative} over the motor's four quantities
    for cw, ct, c0, cm in itertools.product(('ok', 'zero', 'neg'), repeat=4):
        val = {'ok': 1.0, 'zero': 0.0, 'neg': -1.0}
        exp = 'ok' if (cw, ct, c0, cm) == ('ok', 'ok', 'ok', 'ok') else ('either' if (cw, ct, cm) == ('ok', 'ok', 'ok') and c0 == 'zero' else 'ValueError')
        out.append((f'DCMotor.combination w0:{cw} Tmax:{ct} i0:{c0} imax:{cm}',
                    motor(no_load_speed=AngularSpeed(1000 * val[cw], 'rpm'), maximum_torque=Torque(2 * val[ct], 'Nm'),
                          no_load_electric_current=Current(0.1 * val[c0], 'A'), maximum_electric_current=Current(2 * val[cm], 'A')), exp))
    for cw, ct in itertools.product(('ok', 'zero', 'neg'), repeat=2):
        val = {'ok': 1.0, 'zero': 0.0, 'neg': -1.0}
        out.append((f'DCMotor.combination w0:{cw} Tmax:{ct} (no current data)',
                    motor(no_load_speed=AngularSpeed(1000 * val[cw], 'rpm'), maximum_torque=Torque(2 * val[ct], 'Nm')),
                    'ok' if (cw, ct) == ('ok', 'ok') else 'ValueError'))
    # duty cycle
    for v, exp in ((1, 'ok'), (-1, 'ok'), (0.3, 'ok'), (math.nextafter(1.0, 2), 'ValueError'), (math.nextafter(-1.0, -2), 'ValueError'),
                   (1.5, 'ValueError'), (-7, 'ValueError'), (float('nan'), 'ValueError')):
        def mk3(v=v):
            m = motor()()
            m.pwm = v
            return m
        out.append((f'DCMotor.pwm={v}', mk3, exp))
    return out


def check_ctor(acc, idx):
    label, thunk, exp = ctor_cases()[idx]
    case = {'kind': 'ctor', 'index': idx, 'label': label}
    acc.transitions += 1
    try:
        thunk()
        got = 'ok'
    except ValueError:
        got = 'ValueError'
    except Exception as e:
        got = type(e).__name__
    acc.outcomes[('ctor', got)] += 1
    if exp != 'either' and got != exp:
        param = label.split('=')[0].split(' ')[0]
        acc.violation(f'C19/constructor/{param}/expected-{exp}-got-{got}', 'component constructors reject exactly the non-physical values', case,
                      {'label': label})


def roots(tier):
    out = []
    for kind in FAMILIES:
        units = si.UNITS[kind]
        u_a, u_b = units[0], units[-1]
        for v1 in MAGS:
            for v2 in MAGS:
                out.append((kind, (v1, u_a), (v2, u_b)))
                if v1 <= v2:
                    out.append((kind, (v1, u_b), (v2, u_b)))
    return out


def shards(tier):
    rs = roots(tier)
    out = [{'mode': 'prog', 'root': r, 'depth': 2} for r in rs]
    if tier != 'quick':
        out = [{'mode': 'prog', 'root': r, 'depth': 3} for r in rs]
        for r in rs:
            if r[1][0] == TINY and r[2][0] == 1.0 and r[1][1] != r[2][1]:
                out.append({'mode': 'prog', 'root': r, 'depth': 4})
    out.append({'mode': 'ctor'})
    # constructors and one program root per family again, in a process that has already simulated (complete, stopped, aborted runs)
    out.append({'mode': 'ctor', 'disturbed': True})
    seen = set()
    for r in rs:
        if r[0] not in seen and r[1][1] != r[2][1]:
            seen.add(r[0])
            out.append({'mode': 'prog', 'root': r, 'depth': 2, 'disturbed': True})
    return out


def probe():
    """Invalid quantities that must be refused (called from inside a running simulation's load function)."""
    bad = []
    for label, thunk in (('Length(-1 m)', lambda: gu.Length(-1, 'm')), ('Angle(-10 deg)', lambda: gu.Angle(-10, 'deg')),
                         ('-Length(1 m)', lambda: -gu.Length(1, 'm')), ('InertiaMoment(0)', lambda: gu.InertiaMoment(0, 'kgm^2')),
                         ('Length(1 mm) - Length(1 m)', lambda: gu.Length(1, 'mm') - gu.Length(1, 'm')),
                         ('TimeInterval(40 ms) - TimeInterval(1 sec)', lambda: gu.TimeInterval(40, 'ms') - gu.TimeInterval(1, 'sec')),
                         ('Surface(1 m^2) * -1', lambda: gu.Surface(1, 'm^2') * -1)):
        try:
            r = thunk()
            bad.append(f'{label} returned {r!r}')
        except ValueError:
            pass
    return bad


def run_shard(shard, tier):
    if shard.get('disturbed'):
        from gmc import sim
        inside = sim.disturb_process(probe)
        acc = run_shard({k: v for k, v in shard.items() if k != 'disturbed'}, tier)
        for f in inside + probe():
            acc.violation('C19/probe/invalid-quantity-accepted', 'a sign-constrained quantity can never exist in violation of its constraint',
                          {'kind': 'shard', 'shard': shard}, {'failure': f})
        acc.relabel('/after-simulations-in-this-process', shard)
        return acc
    acc = Acc()
    if shard['mode'] == 'prog':
        root = (shard['root'][0], tuple(shard['root'][1]), tuple(shard['root'][2]))
        n = bfs(acc, root, shard['depth'])
        acc.sample({'root_pool': root, 'depth': shard['depth'], 'distinct_pools': n,
                    'example_program': [('to!', 0, si.UNITS[root[0]][0]), ('bin', '-', 0, 1)]})
        acc.cases += acc.executions
    else:
        n = len(ctor_cases())
        for i in range(n):
            check_ctor(acc, i)
            acc.nstates += 1
        acc.cases += n
        acc.executions += n
        acc.sample({'mode': 'constructors', 'cases': n, 'example': ctor_cases()[3][0]})
    return acc


def replay(case):
    acc = Acc()
    if case.get('kind') == 'prog':
        root = (case['root'][0], tuple(case['root'][1]), tuple(case['root'][2]))
        prog = [tuple(s) for s in case['prog']]
        pool, last = build(root, prog)
        inspect(acc, case, pool, last, prog[-1])
    elif case.get('kind') == 'ctor':
        check_ctor(acc, case['index'])
    else:
        return run_shard(case['shard'], 'quick').violations
    return acc.violations
