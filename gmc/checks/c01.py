"""C01  Kinematic coupling: neighbours move in the gear ratio at every instant."""
import collections

from gmc import menu, sim, traj, si
from gmc.core import Acc

ID = 'C01'
RULE = ('every chain of the grammar up to the bound (plus repeated-pattern chains to 12 elements) x '
        'load function menu x initial condition menu x run schedule menu (+ overload variant for '
        'self-locking worm chains); every recorded instant of every run is a state (canon = bit pattern '
        'of all recorded positions/speeds/accelerations at that instant + chain); non-trivial = some '
        'element moving or accelerating')
ASSUMPTIONS = ['ratios recomputed by the reference from teeth/starts in the spec and also compared with element.master_gear_ratio',
               'coupling compared at 1e-9 relative (the code multiplies once, SI conversion adds rounding)']
EXPLANATION = 'bounded exhaustive enumeration of configurations x schedules; invariant on every recorded instant'

DT = [0.125, 'sec']


def bounds(tier):
    return {'chain_elements_max': 4 if tier == 'quick' else 6,
            'long_chains_to': 9 if tier == 'quick' else 12,
            'loads': len(LOADS), 'inits': len(INITS), 'schedules': len(SCHEDULES)}


LOADS = [('const', 0.3), ('speed', 0.02), ('pos', 0.05), ('time', 0.4), ('switch', 0.5)]
INITS = [{'theta': [0.0, 'rad'], 'w': [0.0, 'rad/s']},
         {'theta': [0.5, 'rad'], 'w': [3.0, 'rad/s']},
         {'theta': [-1.0, 'rad'], 'w': [-2.0, 'rad/s']},
         {'theta': [45.0, 'deg'], 'w': [20.0, 'rpm']}]
SCHEDULES = ['run', 'run+continue', 'stop', 'reset-rerun', 'reset-reinit-other-units', 'redeclare-then-continue', 'coast', 'rehome-while-held', 'two-solvers']


def shards(tier):
    nmax = 4 if tier == 'quick' else 6
    out = [{'chain': c, 'long': False} for c in menu.chains(2, nmax)]
    lmax = 9 if tier == 'quick' else 12
    out += [{'chain': c, 'long': True} for c in menu.long_chains(lmax)]
    return out


def load_spec(kind, scale, stall):
    if kind == 'const':
        return ['const', scale * stall]
    if kind == 'speed':
        return ['speed', scale * stall]
    if kind == 'pos':
        return ['pos', scale * stall]
    if kind == 'time':
        return ['time', scale * stall]
    return ['switch', scale * stall, 0.3]


def schedule_ops(name, spec, duty=None):
    if name == 'run':
        return [('run', DT, [0.75, 'sec'], duty, None)]
    if name == 'run+continue':
        return [('run', DT, [0.5, 'sec'], duty, None), ('run', DT, [0.375, 'sec'], duty, None)]
    if name == 'stop':
        n = len(spec['elements'])
        return [('run', DT, [1.0, 'sec'], duty, ['encoder', n - 1, '>=', [0.3, 'rad']])]
    if name == 'reset-rerun':
        return [('run', DT, [0.5, 'sec'], duty, None), ('reset',), ('run', DT, [0.5, 'sec'], duty, None)]
    if name in ('rehome-while-held', 'two-solvers'):
        if not sim.chain_ref(spec).self_locking:
            return None
        park = [1, 1, 0, 0, 0, 0]
        drive = [1, 1, 0, 0, 0, 0, 1, 1, 1, 0, 0, 1, 1, 1, 1, 1, 1, 1]
        if name == 'rehome-while-held':
            # the chain is parked (duty 0, held); the user sets the output position by hand (no reset); the same Solver continues
            return [('run', DT, [0.5, 'sec'], park, None),
                    ('reinit', {'theta': [0.0, 'rad'], 'w': [0.0, 'rad/s']}),
                    ('run', DT, [0.75, 'sec'], drive, None)]
        # solver 0 parks the chain, solver 1 drives it, solver 0 continues
        return [('run', DT, [0.5, 'sec'], park, None), ('solver', 1), ('run', DT, [0.5, 'sec'], drive, None),
                ('solver', 0), ('run', DT, [0.5, 'sec'], drive, None)]
    if name == 'coast':
        # motor with current data switched off (duty 0, then inside the dead band) and no load: every torque and acceleration exactly 0
        return [('run', DT, [0.75, 'sec'], [1, 1, 0, 0, 0.02, 0.02, 1], None)]
    if name == 'reset-reinit-other-units':
        init = spec['init']
        th = [si.convert(si.si(init['theta'][0], 'AngularPosition', init['theta'][1]), 'AngularPosition', 'rad', 'rot'), 'rot']
        w = [si.convert(si.si(init['w'][0], 'AngularSpeed', init['w'][1]), 'AngularSpeed', 'rad/s', 'deg/min'), 'deg/min']
        return [('run', DT, [0.5, 'sec'], duty, None), ('reset',), ('reinit', {'theta': th, 'w': w}), ('run', DT, [0.5, 'sec'], duty, None)]
    if name == 'redeclare-then-continue':
        # a gear mating of the chain is declared again as a fixed joint (ratio 1) after the Solver exists, then the run continues
        for i, l in enumerate(spec['links']):
            if l['t'] == 'G':
                return [('run', DT, [0.375, 'sec'], duty, None), ('redeclare', i, {'t': 'J'}), ('run', DT, [0.375, 'sec'], duty, None)]
        return None
    raise ValueError(name)


def check_case(acc, chain_l, locking, load, init, sched, overload=False):
    chain_l = [tuple(x) for x in chain_l]
    spec = menu.assign(chain_l, locking=locking, init=init, motor=menu.MOTOR_CUR if sched in ('coast', 'rehome-while-held', 'two-solvers') else None)
    stall = menu.stall_at_output(spec)
    spec['load'] = load_spec(load[0], load[1] * (20 if overload else 1), stall)
    # the order in which the chain's relations are declared is the user's choice: three schedules use another one
    order = {'run+continue': 'reverse', 'stop': 'matings-first', 'reset-rerun': 'joints-first'}.get(sched)
    if order:
        spec['declare_order'] = order
    if sched in ('stop', 'coast'):
        spec['subclass_elements'] = True       # every element is an instance of an empty user subclass of its class
    if sched == 'coast':
        if load[0] != 'const':
            return
        spec['load'] = ['const', 0.0]
    case = {'kind': 'case', 'chain': chain_l, 'locking': locking, 'load': list(load), 'init': init,
            'sched': sched, 'overload': overload}
    name = menu.chain_name(chain_l)
    ops = schedule_ops(sched, spec)
    if ops is None:
        return
    m, info = sim.run_schedule(spec, ops)
    acc.executions += 1
    if info['error']:
        acc.violation(f'C01/run-error/{info["error"][0]}', 'simulation runs', case, {'error': info['error']})
        if not info['segments'] and not len(m.pt.time):
            return
    chain = sim.chain_ref(m.spec)          # (the spec in force at the end: relations may have been re-declared)
    # ratio attribute vs reference
    for i in range(1, chain.n):
        r = m.elements[i].master_gear_ratio
        if not si.close(r, chain.ratios[i], 1e-12):
            acc.violation(f'C01/ratio-attribute/{m.spec["links"][i-1]["t"]}', 'master_gear_ratio = reference ratio', case,
                          {'i': i, 'got': r, 'ref': chain.ratios[i]})
        if m.spec['links'][i - 1]['t'] == 'J' and r != 1.0:
            acc.violation('C01/ratio-attribute/joint-not-1', 'joint ratio exactly 1', case, {'i': i, 'got': r})
    observations = [(seg[0], chain) for seg in info['segments']]
    final = m.observe()
    if info.get('spec_changes'):
        k0, _ = info['spec_changes'][0]
        observations += [(sim.slice_obs(final, 0, k0), sim.chain_ref(spec)), (sim.slice_obs(final, k0, len(final['time'])), chain)]
    else:
        observations.append((final, chain))
    for obs, chain in observations:
        def emit(sfx, clause, k, detail):
            d = dict(detail)
            d['instant'] = k
            d['chain'] = name
            acc.violation(f'C01/{sfx}' + (f'/{sched}' if sched in ('reset-reinit-other-units', 'redeclare-then-continue', 'coast', 'rehome-while-held', 'two-solvers') else ''), clause, case, d)
        acc.transitions += traj.coupling(obs, chain, emit)
        nk = len(obs['time'])
        for k in range(nk):
            key = (name, tuple((obs['el'][i]['angular position'][k], obs['el'][i]['angular speed'][k],
                                obs['el'][i]['angular acceleration'][k]) for i in range(chain.n)))
            acc.state(key)
        moving = any(obs['el'][-1]['angular speed'][k] != 0 for k in range(nk))
        held = chain.self_locking and any(obs['el'][0]['angular speed'][k] == 0 and k > 0 for k in range(nk))
        acc.outcomes[(sched, 'moving' if moving else 'still', 'held-some' if held else 'free', nk)] += 1
    acc.cases += 1
    return m


def run_shard(shard, tier):
    acc = Acc()
    chain_l = [tuple(x) for x in shard['chain']]
    worm = menu.has_worm_drive(chain_l)
    variants = [False, True] if worm else [False]
    loads = LOADS if not shard['long'] else LOADS[:2]
    inits = INITS if not shard['long'] else INITS[1:2]
    first = True
    for locking in variants:
        for load in loads:
            for init in inits:
                for sched in SCHEDULES:
                    check_case(acc, chain_l, locking, load, init, sched)
                    if first:
                        acc.sample({'chain': menu.chain_name(chain_l), 'locking': locking, 'load': load,
                                    'init': init, 'schedule': sched})
                        first = False
        if locking:
            for init in inits:
                for sched in SCHEDULES:
                    check_case(acc, chain_l, True, ('const', 1.0), init, sched, overload=True)
                    check_case(acc, chain_l, True, ('const', -1.0), init, sched, overload=True)
    return acc


def replay(case):
    acc = Acc()
    if case.get('kind') == 'case':
        check_case(acc, case['chain'], case['locking'], tuple(case['load']), case['init'], case['sched'],
                   case.get('overload', False))
        return acc.violations
    return run_shard(case['shard'], 'quick').violations
