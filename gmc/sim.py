"""Model specs -> real gearpy objects; scripted environment; observation.

A model spec is plain JSON-able data:

  {'elements': [ {'k': 'M', 'J': [v,u], 'w0': [v,u], 'Tmax': [v,u], 'i0': [v,u]|None, 'imax': ...},
                 {'k': 'F', 'J': ..}, {'k': 'S', 'z': 20, 'J': .., 'm': [v,u]|None, 'b': .., 'E': ..},
                 {'k': 'H', 'z':, 'J':, 'beta': [v,u], 'm','b','E'},
                 {'k': 'Wg', 'starts':, 'J':, 'beta':, 'alpha':, 'd': [v,u]|None},
                 {'k': 'Ww', 'z':, 'J':, 'beta':, 'alpha':, 'm':, 'b': } ],
   'links':    [ {'t': 'J'} | {'t': 'G', 'eta': 0.9} | {'t': 'W', 'f': 0.1} ]   # link i joins element i and i+1
   'load':     ['const', c] | ['speed', c] | ['pos', c] | ['time', c] | ['switch', c, ts] | ['script', [..]]
               | ['mix', c0, cw, cth, ct]          (SI: Nm, rad, rad/s, s)
   'load_unit': 'Nm',
   'init':     {'theta': [v,u], 'w': [v,u]}}

The reference side (`chain_ref`) reads the same spec and never touches gearpy.
"""
import math

from gearpy.mechanical_objects import (DCMotor, Flywheel, HelicalGear, SpurGear,
                                       WormGear, WormWheel)
from gearpy.motor_control import PWMControl
from gearpy.motor_control.rules.rules_base import RuleBase
from gearpy.powertrain import Powertrain
from gearpy.solver import Solver
from gearpy.units import (Angle, AngularPosition, AngularSpeed, Current,
                          InertiaMoment, Length, Stress, Time, TimeInterval,
                          Torque)
from gearpy.utils import add_fixed_joint, add_gear_mating, add_worm_gear_mating

from gmc import ref, si


# ---------------------------------------------------------------------------
# reference side
# ---------------------------------------------------------------------------
def S(kind, q):
    return None if q is None else si.si(q[0], kind, q[1])


def link_ratio(e_prev, e, link):
    if link['t'] == 'J':
        return 1.0
    if link['t'] == 'G':
        return e['z'] / e_prev['z']
    if e_prev['k'] == 'Wg':
        return e['z'] / e_prev['starts']
    return e['starts'] / e_prev['z']


def link_eta(e_prev, e, link):
    if link['t'] == 'J':
        return 1.0
    if link['t'] == 'G':
        return link['eta']
    worm = e_prev if e_prev['k'] == 'Wg' else e
    return ref.worm_efficiency(S('Angle', worm['alpha']), S('Angle', worm['beta']),
                               link['f'], e_prev['k'] == 'Wg')


def link_self_locking(e_prev, e, link):
    if link['t'] != 'W':
        return False, None
    worm = e_prev if e_prev['k'] == 'Wg' else e
    a, b = S('Angle', worm['alpha']), S('Angle', worm['beta'])
    return ref.worm_self_locking(a, b, link['f']), ref.worm_self_locking_margin(a, b, link['f'])


def chain_ref(spec):
    els, links = spec['elements'], spec['links']
    m = els[0]
    ratios, etas = [None], [None]
    sl = False
    for i, link in enumerate(links):
        ratios.append(link_ratio(els[i], els[i + 1], link))
        etas.append(link_eta(els[i], els[i + 1], link))
        sl = sl or link_self_locking(els[i], els[i + 1], link)[0]
    return ref.ChainRef(S('Torque', m['Tmax']), S('AngularSpeed', m['w0']),
                        S('Current', m.get('i0')), S('Current', m.get('imax')),
                        [S('InertiaMoment', e['J']) for e in els], ratios, etas, sl)


def load_value(load, k, t, theta, w):
    """Reference evaluation of the load function id (SI in, Nm out)."""
    kind = load[0]
    if kind == 'const':
        return load[1]
    if kind == 'speed':
        return load[1] * w
    if kind == 'pos':
        return load[1] * theta
    if kind == 'time':
        return load[1] * t
    if kind == 'switch':
        return load[1] if t < load[2] else -load[1]
    if kind == 'script':
        seq = load[1]
        return seq[k] if k < len(seq) else seq[-1]
    if kind == 'mix':
        return load[1] + load[2] * w + load[3] * theta + load[4] * t
    raise ValueError(kind)


# ---------------------------------------------------------------------------
# real side
# ---------------------------------------------------------------------------
def Q(cls, q):
    """[value, unit] -> quantity;  [value, unit, 'inplace', unit2] -> built in `unit`, then converted in place to unit2"""
    if q is None:
        return None
    obj = cls(q[0], q[1])
    if len(q) == 4 and q[2] == 'inplace':
        obj.to(q[3], inplace=True)
    return obj


_SUBCLASSES = {}


def user_subclass(cls):
    """An empty user-defined subclass of a library class (class MySpurGear(SpurGear): pass): same behaviour expected."""
    if cls not in _SUBCLASSES:
        _SUBCLASSES[cls] = type('My' + cls.__name__, (cls,), {})
    return _SUBCLASSES[cls]


def make_element(e, name, subclass=False):
    if subclass or e.get('subclass'):
        e = {k: v for k, v in e.items() if k != 'subclass'}
        g = globals()
        saved = {n: g[n] for n in ('DCMotor', 'Flywheel', 'SpurGear', 'HelicalGear', 'WormGear', 'WormWheel')}
        try:
            for n, c in saved.items():
                g[n] = user_subclass(c)
            return make_element(e, name)
        finally:
            g.update(saved)
    k = e['k']
    if k == 'M':
        return DCMotor(name=name, inertia_moment=Q(InertiaMoment, e['J']),
                       no_load_speed=Q(AngularSpeed, e['w0']),
                       maximum_torque=Q(Torque, e['Tmax']),
                       no_load_electric_current=Q(Current, e.get('i0')),
                       maximum_electric_current=Q(Current, e.get('imax')))
    if k == 'F':
        return Flywheel(name=name, inertia_moment=Q(InertiaMoment, e['J']))
    if k == 'S':
        return SpurGear(name=name, n_teeth=e['z'], inertia_moment=Q(InertiaMoment, e['J']),
                        module=Q(Length, e.get('m')), face_width=Q(Length, e.get('b')),
                        elastic_modulus=Q(Stress, e.get('E')))
    if k == 'H':
        return HelicalGear(name=name, n_teeth=e['z'], inertia_moment=Q(InertiaMoment, e['J']),
                           helix_angle=Q(Angle, e['beta']),
                           module=Q(Length, e.get('m')), face_width=Q(Length, e.get('b')),
                           elastic_modulus=Q(Stress, e.get('E')))
    if k == 'Wg':
        return WormGear(name=name, n_starts=e['starts'], inertia_moment=Q(InertiaMoment, e['J']),
                        helix_angle=Q(Angle, e['beta']), pressure_angle=Q(Angle, e['alpha']),
                        reference_diameter=Q(Length, e.get('d')))
    if k == 'Ww':
        return WormWheel(name=name, n_teeth=e['z'], inertia_moment=Q(InertiaMoment, e['J']),
                         helix_angle=Q(Angle, e['beta']), pressure_angle=Q(Angle, e['alpha']),
                         module=Q(Length, e.get('m')), face_width=Q(Length, e.get('b')))
    raise ValueError(k)


def declare(a, b, link):
    if link['t'] == 'J':
        add_fixed_joint(master=a, slave=b)
    elif link['t'] == 'G':
        add_gear_mating(master=a, slave=b, efficiency=link['eta'])
    else:
        add_worm_gear_mating(master=a, slave=b, friction_coefficient=link['f'])


class ScriptRule(RuleBase):
    """A user rule (public extension point) proposing a scripted duty cycle
    indexed by the instant being computed."""

    def __init__(self, model):
        self.model = model

    def apply(self):
        k = len(self.model.pt.time) - 1
        script = self.model.duty_script
        self.model.rule_calls.append(k)
        if script is None:
            return None
        if k < len(script):
            return script[k]
        return script[-1] if self.model.duty_hold_last else None


class Runaway(Exception):
    """Raised by the harness's load callback when a run records far more instants than requested."""


class Model:
    def __init__(self, spec, names=None):
        self.spec = spec
        els = spec['elements']
        self.names = names or [f"{e['k']}{i}" for i, e in enumerate(els)]
        self.elements = [make_element(e, n, subclass=bool(spec.get('subclass_elements'))) for e, n in zip(els, self.names)]
        # relations declared (and later overridden) before the chain itself: a history of re-declarations
        self.spares = [make_element(e, f"spare{i}") for i, e in enumerate(spec.get('spares', []))]
        everything = self.elements + self.spares
        for i, j, link in spec.get('pre_links', []):
            declare(everything[i], everything[j], link)
        # the order in which the user declares the chain's relations is free: 'reverse', 'matings-first', 'joints-first'
        order = list(range(len(spec['links'])))
        how = spec.get('declare_order')
        if how == 'reverse':
            order.reverse()
        elif how in ('matings-first', 'joints-first'):
            first = [i for i in order if (spec['links'][i]['t'] != 'J') == (how == 'matings-first')]
            order = first + [i for i in order if i not in first]
        for i in order:
            declare(self.elements[i], self.elements[i + 1], spec['links'][i])
        self.load_calls = []
        self.rule_calls = []
        self.max_instants = 200000        # watchdog: the load callback aborts a runaway time loop
        self.duty_script = None
        self.duty_hold_last = True
        self.load = spec.get('load', ['const', 0.0])
        self.load_unit = spec.get('load_unit', 'Nm')
        last = self.elements[-1]

        def external_torque(time, angular_position, angular_speed):
            k = len(self.pt.time) - 1
            if k > self.max_instants:
                raise Runaway(f'more than {self.max_instants} instants recorded')
            self.load_calls.append((k, time, angular_position, angular_speed))
            v = load_value(self.load, k, si.q_si(time), si.q_si(angular_position),
                           si.q_si(angular_speed))
            # load_unit may be a list: the user's function answers in another unit at every instant
            lu = self.load_unit if isinstance(self.load_unit, str) else self.load_unit[max(k, 0) % len(self.load_unit)]
            return Torque(si.convert(v, 'Torque', 'Nm', lu), lu)

        self._external_torque = external_torque
        if not spec.get('defer_load'):
            last.external_torque = external_torque       # ('defer_load': the user forgets it at first, see attach_load)
        self.pt = Powertrain(motor=self.elements[0])
        self.solver = Solver(powertrain=self.pt)
        self.control = None
        self.apply_init()

    def attach_load(self):
        self.elements[-1].external_torque = self._external_torque

    def apply_init(self):
        init = self.spec.get('init') or {'theta': [0.0, 'rad'], 'w': [0.0, 'rad/s']}
        last = self.elements[-1]
        last.angular_position = Q(AngularPosition, init['theta'])
        last.angular_speed = Q(AngularSpeed, init['w'])

    def new_solver(self):
        self.solver = Solver(powertrain=self.pt)

    def use_script_control(self):
        if self.control is None:
            self.control = PWMControl(powertrain=self.pt)
            self.control.add_rule(ScriptRule(self))

    def run(self, dt, T, duty=None, stop=None, control='auto', hold_last=True):
        """dt, T: [value, unit].  duty: list of proposals per absolute instant
        index (None entries = no proposal) or None for no motor control."""
        self.duty_hold_last = hold_last
        mc = None
        if control == 'auto':
            if duty is not None:
                self.use_script_control()
                self.duty_script = duty
                mc = self.control
        elif control is not None:
            mc = control
        self.solver.run(time_discretization=Q(TimeInterval, dt),
                        simulation_time=Q(TimeInterval, T),
                        motor_control=mc, stop_condition=stop)

    # -- observation ---------------------------------------------------------
    def series(self, i, var):
        tv = self.elements[i].time_variables
        if var not in tv:
            return None
        return [x if (x is None or isinstance(x, (int, float))) else si.q_si(x) for x in tv[var]]

    def times(self):
        return [si.q_si(t) for t in self.pt.time]

    def observe(self):
        out = {'time': self.times(), 'el': []}
        for i, e in enumerate(self.elements):
            d = {}
            for var in e.time_variables:
                d[var] = self.series(i, var)
            out['el'].append(d)
        return out


def dyadic(x):
    return float(x)


# ---------------------------------------------------------------------------
# schedules
# ---------------------------------------------------------------------------
from gearpy.sensors import AbsoluteRotaryEncoder, Amperometer, Tachometer
from gearpy.utils import StopCondition

OPERATORS = {'>': 'greater_than', '>=': 'greater_than_or_equal_to', '==': 'equal_to',
             '<': 'less_than', '<=': 'less_than_or_equal_to'}
SENSOR_KIND = {'encoder': ('AngularPosition', 'angular position'),
               'tachometer': ('AngularSpeed', 'angular speed'),
               'amperometer': ('Current', 'electric current')}


def make_stop(model, stop):
    """stop = [sensor, element index, operator, [value, unit]]"""
    if stop is None:
        return None
    sensor, idx, op, thr = stop
    target = model.elements[idx]
    if sensor == 'encoder':
        # thr = [value, unit, 'Angle']: the threshold is handed over as an Angle (a sub-kind of AngularPosition)
        if len(thr) == 3 and thr[2] == 'Angle':
            from gearpy.units import Angle
            s, q = AbsoluteRotaryEncoder(target=target), Q(Angle, thr[:2])
        else:
            s, q = AbsoluteRotaryEncoder(target=target), Q(AngularPosition, thr)
    elif sensor == 'tachometer':
        s, q = Tachometer(target=target), Q(AngularSpeed, thr)
    else:
        s, q = Amperometer(target=target), Q(Current, thr)
    return StopCondition(sensor=s, threshold=q, operator=getattr(StopCondition, OPERATORS[op]))


def run_schedule(spec, schedule, names=None):
    """Executes a schedule on fresh objects.  Returns (model, info) where info
    has per-instant 'dts', the dict 'starts' (fresh-run instants with the state
    carried into them) and 'runs' (instant ranges of each run).  With resets the
    observation only contains what is recorded after the last reset; 'segments'
    keeps the observation taken just before every reset."""
    m = Model(spec, names)
    chain = chain_ref(spec)
    info = {'dts': [], 'starts': {}, 'runs': [], 'segments': [], 'error': None}
    locked_carry = False
    hand_duty = None
    for op in schedule:
        if op[0] == 'run':
            _, dt, T, duty, stop = (list(op) + [None, None])[:5]
            before = len(m.pt.time)
            if before and hand_duty is not None:
                # the duty cycle was set by hand since the last recorded instant: it is the one in force when the first
                # instant of this continuation is computed
                info.setdefault('duty_overrides', {})[before] = hand_duty[0]
            hand_duty = None
            if before == 0:
                motor = m.elements[0]
                w_last = si.q_si(m.elements[-1].angular_speed)
                info['starts'][0] = {
                    'D': motor.pwm,
                    'Tm': None if motor.torque is None else si.q_si(motor.torque),
                    'w_pre': w_last * chain.up[0], 'locked': locked_carry}
            try:
                m.run(dt, T, duty=duty, stop=make_stop(m, stop))
            except Exception as e:            # recorded, judged by the caller
                info['error'] = (type(e).__name__, str(e)[:200], len(info['runs']))
            after = len(m.pt.time)
            dts = si.si(dt[0], 'TimeInterval', dt[1])
            new = after - before
            if before == 0:
                info['dts'] += [None] + [dts] * (new - 1)
            else:
                info['dts'] += [dts] * new
            info['runs'].append((before, after))
            if info['error']:
                break
        elif op[0] == 'reset':
            info['segments'].append((m.observe(), list(info['dts']), dict(info['starts'])))
            try:
                m.pt.reset()
                m.apply_init()
            except Exception as e:
                info['error'] = (type(e).__name__, 'reset: ' + str(e)[:200], len(info['runs']))
                break
            info['dts'], info['starts'] = [], {}
            locked_carry = op[1] if len(op) > 1 else None   # unknown unless told
        elif op[0] == 'newsolver':
            m.new_solver()
            locked_carry = False
        elif op[0] == 'solver':
            # ('solver', i): solver number i takes over (created on first use); solvers keep their own state
            pool = info.setdefault('_solvers', {0: m.solver})
            if op[1] not in pool:
                m.new_solver()
                pool[op[1]] = m.solver
            m.solver = pool[op[1]]
        elif op[0] == 'redeclare':
            # ('redeclare', i, link): the relation between elements i and i+1 is declared again (same Solver, same Powertrain)
            _, i, link = op
            try:
                declare(m.elements[i], m.elements[i + 1], link)
            except Exception as e:
                info['error'] = (type(e).__name__, 'redeclare: ' + str(e)[:200], len(info['runs']))
                break
            import copy as _copy
            spec = _copy.deepcopy(m.spec)
            spec['links'][i] = link
            m.spec = spec
            info.setdefault('spec_changes', []).append((len(m.pt.time), spec))
        elif op[0] == 'reinit':
            # ('reinit', init): the user sets the initial conditions again, possibly written in other units
            last = m.elements[-1]
            last.angular_position = Q(AngularPosition, op[1]['theta'])
            last.angular_speed = Q(AngularSpeed, op[1]['w'])
        elif op[0] == 'setpwm':
            m.elements[0].pwm = op[1]
            hand_duty = (op[1],)
    return m, info


def determinism_selfcheck():
    """Replay one recorded history twice on fresh objects and require bit-identical observations
    (guards the explorer against nondeterminism it does not own: time, hashing, caches)."""
    from gmc import menu
    spec = menu.assign([('J', 'Wg'), ('W', 'Ww'), ('J', 'S'), ('G', 'S')], motor=menu.MOTOR_CUR, locking=True,
                       init={'theta': [0.1, 'rad'], 'w': [1.0, 'rad/s']})
    spec['load'] = ['mix', 0.002, 0.0001, 0.0002, 0.05]
    ops = [('run', [0.125, 'sec'], [0.5, 'sec'], [1, 0.3, 0, -1, 1, None, 0.5], None),
           ('run', [0.125, 'sec'], [0.375, 'sec'], [1, 0.3, 0, -1, 1, None, 0.5, 1, -0.2], None)]
    a = run_schedule(spec, ops)[0].observe()
    b = run_schedule(spec, ops)[0].observe()
    if repr(a) != repr(b):
        raise SystemExit('determinism self-check failed: the same history gave two different observations')
    return len(a['time'])


def slice_obs(obs, a, b):
    """Observation restricted to instants a..b-1."""
    return {'time': obs['time'][a:b],
            'el': [{var: ser[a:b] for var, ser in e.items()} for e in obs['el']]}


# ---------------------------------------------------------------------------------------------------------
# A process that has already seen some simulation history (module-level state must not leak out of it)
# ---------------------------------------------------------------------------------------------------------
class _UserAbort(RuntimeError):
    pass


def disturb_process(probe=None):
    """Runs, in this process: a complete run; a run ended by a stop condition; a run aborted by an exception raised
    from the user's load function at its third instant; a run aborted by the library's own ValueError (two applicable
    rules).  `probe()` -> list of failure strings is also called from INSIDE the load function of the complete run
    (user code executing during the time loop).  Returns the failures collected there.
    Afterwards the caller repeats its ordinary checks: every property about quantities and components holds in a
    process whatever simulations ran, finished or failed in it before."""
    from gearpy.motor_control import PWMControl
    from gearpy.motor_control.rules import ConstantPWM
    from gearpy.sensors import Timer
    spec = {'elements': [{'k': 'M', 'J': [1.0, 'gm^2'], 'w0': [2000.0, 'rpm'], 'Tmax': [10.0, 'mNm'], 'i0': [0.1, 'A'], 'imax': [2.0, 'A']},
                         {'k': 'S', 'z': 20, 'J': [5.0, 'gm^2']}, {'k': 'S', 'z': 30, 'J': [5.0, 'gm^2']}],
            'links': [{'t': 'J'}, {'t': 'G', 'eta': 0.9}], 'load': ['const', 0.001],
            'init': {'theta': [0.0, 'rad'], 'w': [0.0, 'rad/s']}}
    inside = []
    # 1. complete run, the probe called from inside the loop
    m = Model(spec)
    orig = m.elements[-1].external_torque

    def probing(time, angular_position, angular_speed):
        if probe is not None and len(m.pt.time) == 3:
            inside.extend('inside-the-time-loop: ' + f for f in probe())
        return orig(time=time, angular_position=angular_position, angular_speed=angular_speed)
    m.elements[-1].external_torque = probing
    m.run([0.125, 'sec'], [0.5, 'sec'])
    # 2. run ended by a stop condition
    m = Model(spec)
    m.run([0.125, 'sec'], [1.0, 'sec'], stop=make_stop(m, ['tachometer', 0, '>=', [1.0, 'rad/s']]))
    # 3. run aborted by the user's load function
    m = Model(spec)
    orig3 = m.elements[-1].external_torque

    def failing(time, angular_position, angular_speed):
        if len(m.pt.time) >= 3:
            raise _UserAbort('load function gives up')
        return orig3(time=time, angular_position=angular_position, angular_speed=angular_speed)
    m.elements[-1].external_torque = failing
    try:
        m.run([0.125, 'sec'], [1.0, 'sec'])
    except _UserAbort:
        pass
    # 4. run aborted by the library itself: two rules applicable at once
    m = Model(spec)
    ctl = PWMControl(powertrain=m.pt)
    ctl.add_rule(ConstantPWM(timer=Timer(Time(0.2, 'sec'), TimeInterval(1.0, 'sec')), powertrain=m.pt, target_pwm_value=0.5))
    ctl.add_rule(ConstantPWM(timer=Timer(Time(0.3, 'sec'), TimeInterval(1.0, 'sec')), powertrain=m.pt, target_pwm_value=0.7))
    try:
        m.run([0.125, 'sec'], [1.0, 'sec'], control=ctl)
    except ValueError:
        pass
    return inside
