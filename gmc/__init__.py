"""gmc: bounded exhaustive exploration of gearpy against a gearpy-free reference model."""
