"""Reference model: gearpy-free, plain floats in SI units.

Written from the documentation (docstrings / property statements), not from
the code.  Everything is a pure function.
"""
import math


# ---------------------------------------------------------------------------
# DC motor characteristic (dc_motor.py docstrings; property C08)
# ---------------------------------------------------------------------------
def dead_zone(i0, imax):
    return i0 / imax


def motor_torque(Tmax, w0, D, w, i0=None, imax=None):
    """Driving torque [Nm].  Without current data the duty cycle is ignored."""
    if i0 is None or imax is None:
        return Tmax * (1.0 - w / w0)
    if abs(D) <= i0 / imax:
        return 0.0
    if D > 0:
        TmaxD = Tmax * (D * imax - i0) / (imax - i0)
    else:                                   # mirrored
        TmaxD = Tmax * (D * imax + i0) / (imax - i0)
    return TmaxD * (1.0 - w / (D * w0))


def motor_current(Tmax, w0, D, w, i0, imax):
    """Absorbed current [A] written directly in (D, w) so that it does not
    divide by Tmax(D):  i = (D imax -+ i0)(1 - w/(D w0)) +- i0."""
    if abs(D) <= i0 / imax:
        return D * imax
    if D > 0:
        return (D * imax - i0) * (1.0 - w / (D * w0)) + i0
    return (D * imax + i0) * (1.0 - w / (D * w0)) - i0


def motor_current_from_torque(Tmax, D, T, i0, imax):
    """The documented form i = (D imax - i0) T / Tmax(D) + i0 (mirrored)."""
    if abs(D) <= i0 / imax:
        return D * imax
    if D > 0:
        TmaxD = Tmax * (D * imax - i0) / (imax - i0)
        return (D * imax - i0) * T / TmaxD + i0
    TmaxD = Tmax * (D * imax + i0) / (imax - i0)
    return (D * imax + i0) * T / TmaxD - i0


# ---------------------------------------------------------------------------
# Chain: ratios, efficiencies, inertia reduction
# ---------------------------------------------------------------------------
def worm_efficiency(alpha, beta, f, worm_drives):
    """Documented friction formulas; alpha = pressure angle, beta = helix angle [rad]."""
    ca, tb = math.cos(alpha), math.tan(beta)
    if worm_drives:
        return (ca - f * tb) / (ca + f / tb)
    return (ca - f / tb) / (ca + f * tb)


def worm_self_locking(alpha, beta, f):
    return f > math.cos(alpha) * math.tan(beta)


def worm_self_locking_margin(alpha, beta, f):
    return f - math.cos(alpha) * math.tan(beta)


def equivalent_inertia(inertias, ratios):
    """inertias[0] is the motor; ratios[i] the gear ratio of element i to its
    driver (ratios[0] unused).  J := J*r_i + J_i going downstream."""
    J = inertias[0]
    for Ji, ri in zip(inertias[1:], ratios[1:]):
        J = J * ri + Ji
    return J


# ---------------------------------------------------------------------------
# One solver instant (DESIGN.md section 2)
# ---------------------------------------------------------------------------
class ChainRef:
    """Static data of a chain in SI floats."""

    def __init__(self, Tmax, w0, i0, imax, inertias, ratios, etas, self_locking):
        self.Tmax, self.w0, self.i0, self.imax = Tmax, w0, i0, imax
        self.inertias, self.ratios, self.etas = inertias, ratios, etas
        self.self_locking = self_locking
        self.n = len(inertias)
        self.J = equivalent_inertia(inertias, ratios)
        # cumulative ratio motor speed / element speed ... element i speed = last*prod(r[i+1:])
        self.up = [1.0] * self.n
        for i in range(self.n - 2, -1, -1):
            self.up[i] = self.up[i + 1] * ratios[i + 1]

    def motor_torque(self, D, w):
        return motor_torque(self.Tmax, self.w0, D, w, self.i0, self.imax)

    def has_current(self):
        return self.i0 is not None and self.imax is not None


def lock_decision(self_locking, locked, D_prev, w_motor, T_motor_prev, tol_w=0.0, tol_T=0.0):
    """The lock automaton.  Returns (locked', ambiguous).  D_prev is the duty
    cycle left by the previous instant, T_motor_prev the motor net torque
    recorded at the previous instant (None if never computed)."""
    amb = False
    if self_locking:
        if D_prev == 0:
            return True, False
        if abs(w_motor) <= tol_w and w_motor != 0.0:
            amb = True
        if (D_prev > 0 and w_motor < 0) or (D_prev < 0 and w_motor > 0):
            return True, amb
    if T_motor_prev is not None:
        if abs(T_motor_prev) <= tol_T and T_motor_prev != 0.0:
            amb = True
        if (T_motor_prev > 0 and D_prev > 0) or (T_motor_prev < 0 and D_prev < 0):
            return False, amb
    return locked, amb


def step(chain, prev, dt, env_load, env_duty, first=False):
    """Predict the recorded state of one instant.

    prev: dict with last element 'theta', 'w', 'a' (recorded at the previous
          instant or the initial conditions), 'D' (duty cycle in force),
          'Tm' (motor net torque recorded at the previous instant or None),
          'locked' (reference automaton flag).
    env_load(theta_last, w_last) -> load torque on the last element [Nm]
    env_duty -> duty cycle chosen by control at this instant (None = unchanged)
    Returns dict with per-element lists and the new automaton state.
    """
    n = chain.n
    if first:
        th, w = prev['theta'], prev['w']
    else:
        w = prev['w'] + prev['a'] * dt
        th = prev['theta'] + w * dt
    w_star = w
    thetas = [th * chain.up[i] for i in range(n)]
    ws = [w * chain.up[i] for i in range(n)]
    locked, amb = lock_decision(chain.self_locking, prev['locked'], prev['D'],
                                ws[0], prev['Tm'])
    if locked:
        ws = [0.0] * n
    Tl = [0.0] * n
    Tl[n - 1] = env_load(thetas[n - 1], ws[n - 1])
    for i in range(n - 1, 0, -1):
        Tl[i - 1] = Tl[i] / chain.etas[i] / chain.ratios[i]
    D = prev['D'] if env_duty is None else env_duty
    Td = [0.0] * n
    Td[0] = chain.motor_torque(D, ws[0])
    for i in range(1, n):
        Td[i] = Td[i - 1] * chain.etas[i] * chain.ratios[i]
    T = [Td[i] - Tl[i] for i in range(n)]
    if locked:
        acc = [0.0] * n
    else:
        a_last = T[n - 1] / chain.J
        acc = [a_last * chain.up[i] for i in range(n)]
    cur = None
    if chain.has_current():
        cur = motor_current(chain.Tmax, chain.w0, D, ws[0], chain.i0, chain.imax)
    return {'theta': thetas, 'w': ws, 'a': acc, 'Td': Td, 'Tl': Tl, 'T': T,
            'D': D, 'locked': locked, 'ambiguous': amb, 'w_star': w_star,
            'current': cur}


# ---------------------------------------------------------------------------
# Gear formulas (property C09)
# ---------------------------------------------------------------------------
LEWIS_TABLE = [
    (10, 0.201), (11, 0.226), (12, 0.245), (13, 0.264), (14, 0.276), (15, 0.289),
    (16, 0.295), (17, 0.302), (18, 0.308), (19, 0.314), (20, 0.320), (21, 0.325),
    (22, 0.330), (24, 0.337), (26, 0.344), (28, 0.352), (30, 0.358), (32, 0.364),
    (34, 0.370), (36, 0.377), (38, 0.383), (40, 0.389), (43, 0.394), (45, 0.399),
    (50, 0.408), (55, 0.415), (60, 0.421), (65, 0.425), (70, 0.429), (75, 0.433),
    (80, 0.436), (90, 0.442), (100, 0.446), (150, 0.458), (200, 0.463),
    (300, 0.471), (400, 0.478), (500, 0.484)]

WORM_TABLE = {14.5: (16.0, 0.1), 20.0: (25.0, 0.125), 25.0: (35.0, 0.15), 30.0: (45.0, 0.175)}


def lewis(z):
    """Clamped linear interpolation of the tabulated Lewis factor."""
    t = LEWIS_TABLE
    if z <= t[0][0]:
        return t[0][1]
    if z >= t[-1][0]:
        return t[-1][1]
    for (z0, y0), (z1, y1) in zip(t, t[1:]):
        if z0 <= z <= z1:
            return y0 + (y1 - y0) * (z - z0) / (z1 - z0)
    raise AssertionError


def helical_geometry(z, beta):
    """Transverse pressure angle, base helix angle, virtual teeth number."""
    alpha_n = math.radians(20.0)
    alpha_t = math.atan(math.tan(alpha_n) / math.cos(beta))
    beta_b = math.atan(math.tan(beta) * math.cos(alpha_t))
    zv = z / (math.cos(beta_b) ** 2 * math.cos(beta))
    return alpha_t, beta_b, zv


def tangential_force(T_ref, d):
    return abs(T_ref) / (d / 2.0)


def bending_spur(Ft, m, b, Y):
    return Ft / (m * b * Y)


def bending_wheel(Ft, d_worm, beta, z, b, Y):
    pn = math.pi * d_worm * math.sin(beta) / z
    beff = min(b, 0.67 * d_worm)
    return Ft / (pn * beff * Y)


def contact_stress(Ft, b, d1, d2, E1, E2, alpha, beta=0.0):
    """Documented Hertz expression (spur: beta = 0, alpha = 20 deg; helical:
    alpha = transverse pressure angle):
    sigma = 0.262922 sqrt( 4 Ft cos(beta) / (b cos(alpha) sin(alpha))
                           * (1/D1 + 1/D2) * E1 E2 / (E1 + E2) )"""
    return 0.262922 * math.sqrt(
        4.0 * Ft * math.cos(beta) / (b * math.cos(alpha) * math.sin(alpha))
        * (1.0 / d1 + 1.0 / d2) * E1 * E2 / (E1 + E2))


# ---------------------------------------------------------------------------
# Closed form of the constant-load constant-duty ODE (property C04)
# ---------------------------------------------------------------------------
def closed_form(k, w_inf, w0, th0, t):
    """w' = -k (w - w_inf);  returns (theta(t), w(t))."""
    if k == 0:
        raise ValueError
    e = math.exp(-k * t)
    w = w_inf + (w0 - w_inf) * e
    th = th0 + w_inf * t + (w0 - w_inf) * (1.0 - e) / k
    return th, w
