"""Shared model menu: chain grammar, parameter lists, environment alphabets."""
import itertools
import math

from gmc import si

JOINT_TARGETS = ['F', 'S', 'H', 'Wg', 'Ww']
LOADABLE = ('S', 'H', 'Ww')            # GearBase kinds can carry the external load

TEETH = [12, 30, 18, 45, 10, 64, 25]
STARTS = [1, 2, 3]
INERTIA = [[2.0, 'gm^2'], [300.0, 'gcm^2'], [5.0, 'kgcm^2'], [0.8, 'gm^2'], [120.0, 'kgmm^2']]
ETAS = [0.9, 0.8, 0.95, 1, 0.5]
HELIX_H = [20.0, 'deg']
WORM_ALPHA = [20.0, 'deg']
WORM_BETA = [10.0, 'deg']
F_FREE, F_LOCK = 0.1, 0.3              # f* = cos(20deg) tan(10deg) = 0.1657

MOTOR_PLAIN = {'k': 'M', 'J': [1.0, 'gm^2'], 'w0': [2000.0, 'rpm'], 'Tmax': [10.0, 'mNm']}
MOTOR_CUR = dict(MOTOR_PLAIN, i0=[0.1, 'A'], imax=[2.0, 'A'])


def successors(kind):
    out = [('J', t) for t in JOINT_TARGETS]
    if kind == 'S':
        out.append(('G', 'S'))
    elif kind == 'H':
        out.append(('G', 'H'))
    elif kind == 'Wg':
        out.append(('W', 'Ww'))
    elif kind == 'Ww':
        out.append(('W', 'Wg'))
    return out


def chains(nmin, nmax):
    """All chains of the grammar with nmin..nmax elements (motor included),
    as lists of (link_type, kind) with the motor implicit, last element loadable."""
    out = []

    def rec(seq, kind):
        n = len(seq) + 1
        if n >= nmin and kind in LOADABLE:
            out.append(list(seq))
        if n >= nmax:
            return
        if kind == 'M':
            nxt = [('J', t) for t in JOINT_TARGETS]
        else:
            nxt = successors(kind)
        for lt, k in nxt:
            rec(seq + [(lt, k)], k)
    rec([], 'M')
    return out


def long_chains(nmax=12):
    """Repeat every 1-, 2- and 3-link pattern up to nmax elements."""
    pats = set()
    for c in chains(2, 4):
        pats.add(tuple(c))
    out = []
    for p in sorted(pats):
        # a pattern can repeat if its first link is a joint (always true after the motor)
        seq = list(p)
        while len(seq) + len(p) + 1 <= nmax:
            # next repetition must be grammatical: first link of p from last kind of seq
            if p[0] in successors(seq[-1][1]) or p[0][0] == 'J':
                seq = seq + list(p)
            else:
                break
        if len(seq) + 1 >= 7 and seq[-1][1] in LOADABLE:
            out.append(seq)
    # dedupe
    uniq = []
    for s in out:
        if s not in uniq:
            uniq.append(s)
    return uniq


def assign(chain, motor=None, locking=False, with_data=False, init=None, load=None, teeth_mode='rotating'):
    """Turn a grammar chain into a model spec with rotating parameter lists."""
    els = [dict(motor or MOTOR_PLAIN)]
    links = []
    ti = si_ = ii = ei = 0
    prev = els[0]
    for idx, (lt, k) in enumerate(chain):
        J = INERTIA[(idx + 1) % len(INERTIA)]
        if k == 'F':
            e = {'k': 'F', 'J': J}
        elif k == 'S':
            e = {'k': 'S', 'z': TEETH[ti % len(TEETH)], 'J': J}
            ti += 1
        elif k == 'H':
            e = {'k': 'H', 'z': TEETH[ti % len(TEETH)], 'J': J, 'beta': HELIX_H}
            ti += 1
        elif k == 'Wg':
            e = {'k': 'Wg', 'starts': STARTS[si_ % len(STARTS)], 'J': J,
                 'beta': WORM_BETA, 'alpha': WORM_ALPHA}
            si_ += 1
        elif k == 'Ww':
            e = {'k': 'Ww', 'z': TEETH[ti % len(TEETH)], 'J': J,
                 'beta': WORM_BETA, 'alpha': WORM_ALPHA}
            ti += 1
        if lt == 'J':
            link = {'t': 'J'}
        elif lt == 'G':
            link = {'t': 'G', 'eta': ETAS[ei % len(ETAS)]}
            ei += 1
        else:
            worm_drives = prev['k'] == 'Wg'
            link = {'t': 'W', 'f': F_LOCK if (locking and worm_drives) else F_FREE}
        els.append(e)
        links.append(link)
        prev = e
    if teeth_mode == 'equal':
        # every mating has ratio exactly 1 (equal teeth; worm starts = wheel teeth)
        for e in els:
            if 'z' in e:
                e['z'] = 20
            if 'starts' in e:
                e['starts'] = 20
    spec = {'elements': els, 'links': links,
            'load': load or ['const', 0.002],
            'init': init or {'theta': [0.0, 'rad'], 'w': [0.0, 'rad/s']}}
    return spec


def has_worm_drive(chain):
    prev = 'M'
    for lt, k in chain:
        if lt == 'W' and prev == 'Wg':
            return True
        prev = k
    return False


def chain_name(chain):
    return 'M' + ''.join(('-' if lt == 'J' else '=' if lt == 'G' else '~') + k for lt, k in chain)


def stall_at_output(spec):
    """Stall torque of the motor seen at the last element (reference)."""
    from gmc.sim import chain_ref
    c = chain_ref(spec)
    t = c.Tmax
    for i in range(1, c.n):
        t = t * c.etas[i] * c.ratios[i]
    return t


def scaled(spec, s, t_unit='kNm', j_unit='kgm^2'):
    """The same mechanism with every torque and every inertia multiplied by s (speeds, accelerations, ratios, times and
    efficiencies unchanged: the equations are homogeneous), written in t_unit / j_unit so that the raw numbers are tiny
    (s << 1) or huge.  The load must be derived from the scaled spec (stall_at_output) or scaled by the caller."""
    import copy
    out = copy.deepcopy(spec)
    for el in out['elements']:
        el['J'] = [si.convert(si.si(el['J'][0], 'InertiaMoment', el['J'][1]) * s, 'InertiaMoment', 'kgm^2', j_unit), j_unit]
        if 'Tmax' in el:
            el['Tmax'] = [si.convert(si.si(el['Tmax'][0], 'Torque', el['Tmax'][1]) * s, 'Torque', 'Nm', t_unit), t_unit]
    return out
