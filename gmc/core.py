"""Explorer bookkeeping, parallel driver, verdict / evidence / known findings.

A check module provides

    ID, TITLE
    shards(tier)            -> list of JSON-able shard descriptions
    run_shard(shard, tier)  -> Acc        (explores the shard completely)
    replay(case)            -> list of violation dicts (plain calls, no explorer)
    RULE, ASSUMPTIONS       -> strings for the evidence file

`Acc` accumulates, per shard: distinct canonical states, transitions
(events / steps / operations executed on the real code), executions (complete
traces run on the implementation and compared with the reference on every
edge), distinct observed outcomes, abstract-coverage tables, samples and
violations.  Shards are independent, so counts add up; the set of state hashes
is merged (a union) in the parent.
"""
import collections
import fnmatch
import hashlib
import json
import multiprocessing
import os
import sys
import time
import traceback

VERIF = os.path.dirname(os.path.dirname(os.path.abspath(__file__)))
FINDINGS_FILE = os.path.join(VERIF, 'known_findings.txt')
MAX_VIOL_PER_SIG = 3
MAX_SAMPLES = 6


def h64(obj):
    """Stable 64-bit hash of a canonical (repr-able) state."""
    return int.from_bytes(
        hashlib.blake2b(repr(obj).encode(), digest_size=8).digest(), 'big')


class Acc:
    def __init__(self):
        self.states = set()
        self.nstates = 0              # states distinct by construction (pure enumerations)
        self.transitions = 0
        self.executions = 0
        self.cases = 0
        self.ambiguous = 0
        self.outcomes = collections.Counter()
        self.coverage = collections.Counter()
        self.samples = []
        self.violations = []          # list of dicts
        self.viol_count = collections.Counter()   # sig -> count
        self.caps = []
        self.extra = {}

    # -- recording ---------------------------------------------------------
    def state(self, canon):
        self.states.add(h64(canon))

    def seen(self, canon):
        k = h64(canon)
        if k in self.states:
            return True
        self.states.add(k)
        return False

    def sample(self, s):
        if len(self.samples) < MAX_SAMPLES:
            self.samples.append(s)

    def violation(self, sig, clause, case, detail):
        """Record a violation.  `sig` identifies *what kind* of failure this is
        (oracle clause + call site + discriminating discrete attributes);
        `case` must be enough for the check's replay() to rebuild it."""
        self.viol_count[sig] += 1
        if self.viol_count[sig] <= MAX_VIOL_PER_SIG:
            self.violations.append(
                {'sig': sig, 'clause': clause, 'case': case, 'detail': detail})

    def relabel(self, suffix, shard):
        """Every violation recorded so far becomes a violation of the whole shard (replayed as a shard, with whatever
        the shard does before its body), its signature extended by `suffix`.  Known-finding globs still match by prefix
        only if they say so: a finding is a call site, and the suffix names a different history."""
        cnt = collections.Counter()
        for v in self.violations:
            v['detail'] = {'original_case': v['case'], 'detail': v['detail']}
            v['case'] = {'kind': 'shard', 'shard': shard}
        for sig, n in self.viol_count.items():
            cnt[sig + suffix] += n
        for v in self.violations:
            v['sig'] = v['sig'] + suffix
        self.viol_count = cnt

    def merge(self, other):
        self.states |= other.states
        self.nstates += other.nstates
        self.transitions += other.transitions
        self.executions += other.executions
        self.cases += other.cases
        self.ambiguous += other.ambiguous
        self.outcomes.update(other.outcomes)
        self.coverage.update(other.coverage)
        for s in other.samples:
            self.sample(s)
        for v in other.violations:
            if sum(1 for w in self.violations if w['sig'] == v['sig']) < MAX_VIOL_PER_SIG:
                self.violations.append(v)
        self.viol_count.update(other.viol_count)
        self.caps.extend(other.caps)
        for k, v in other.extra.items():
            if isinstance(v, (int, float)) and isinstance(self.extra.get(k, 0), (int, float)):
                self.extra[k] = self.extra.get(k, 0) + v
            else:
                self.extra.setdefault(k, v)


# -- known findings -----------------------------------------------------------
def load_findings(pid):
    out = []
    if not os.path.exists(FINDINGS_FILE):
        return out
    for line in open(FINDINGS_FILE):
        line = line.strip()
        if not line.startswith('finding:'):
            continue                     # 'fixed:' lines suppress nothing
        body = line[len('finding:'):].strip()
        head, _, what = body.partition('::')
        fields = dict(f.split('=', 1) for f in head.split() if '=' in f)
        if fields.get('property') != pid:
            continue
        out.append({'match': fields.get('match', ''), 'what': what.strip()})
    return out


def classify(pid, acc):
    """Split violation signatures into known findings and new violations."""
    findings = load_findings(pid)
    known = collections.OrderedDict()
    new = []
    for sig in acc.viol_count:
        hit = None
        for f in findings:
            if f['match'] and any(fnmatch.fnmatchcase(sig, pat) for pat in f['match'].split('|')):
                hit = f
                break
        if hit is None:
            new.append(sig)
        else:
            known.setdefault(hit['match'], {'what': hit['what'], 'sigs': []})
            known[hit['match']]['sigs'].append(sig)
    unseen = [f for f in findings if f['match'] not in known]
    return known, new, unseen


# -- parallel driver -----------------------------------------------------------
_MOD = None
_TIER = None


def _init(modname, tier):
    global _MOD, _TIER
    import importlib
    _MOD = importlib.import_module(modname)
    _TIER = tier
    import warnings
    warnings.filterwarnings('ignore')


def _work(shard):
    try:
        return _MOD.run_shard(shard, _TIER)
    except Exception:                       # a harness crash is never silent
        acc = Acc()
        acc.violation(f'{_MOD.ID}/harness-crash', 'harness',
                      {'kind': 'shard', 'shard': shard},
                      traceback.format_exc()[-1500:])
        return acc


def explore(mod, tier, seed, jobs=None):
    shards = list(mod.shards(tier))
    n = len(shards)
    if n == 0:
        raise SystemExit('no shards')
    # the seed only rotates which worker takes which shard
    rot = seed % n
    shards = shards[rot:] + shards[:rot]
    jobs = jobs or min(int(os.environ.get('VERIF_JOBS', '16')), n)
    total = Acc()
    if jobs <= 1:
        _init(mod.__name__, tier)
        for s in shards:
            total.merge(_work(s))
    else:
        ctx = multiprocessing.get_context('fork')
        with ctx.Pool(jobs, initializer=_init,
                      initargs=(mod.__name__, tier)) as pool:
            for acc in pool.imap_unordered(_work, shards, chunksize=1):
                total.merge(acc)
    return total, n


def finish(mod, tier, seed, acc, nshards, wall, replay_dir):
    pid = mod.ID
    known, new, unseen = classify(pid, acc)
    os.makedirs(replay_dir, exist_ok=True)
    lines = []
    for match, info in known.items():
        lines.append(f"KNOWN-FINDING: property={pid} {info['what']} "
                     f"[match={match} occurrences="
                     f"{sum(acc.viol_count[s] for s in info['sigs'])}]")
    for f in unseen:
        lines.append(f"note: listed finding not reached in this tier: "
                     f"property={pid} match={f['match']}")
    new_paths = []
    for sig in new:
        v = next((w for w in acc.violations if w['sig'] == sig), None)
        name = hashlib.blake2b(sig.encode(), digest_size=6).hexdigest()
        path = os.path.join(replay_dir, f'{pid}_{name}.json')
        # replay the minimal case twice with plain calls: the same case must fail every time
        reproduced = None
        if v is not None and hasattr(mod, 'replay') and v['case'].get('kind') != 'shard':
            try:
                r1 = sorted(x['sig'] for x in mod.replay(v['case']))
                r2 = sorted(x['sig'] for x in mod.replay(v['case']))
                reproduced = bool(r1) and r1 == r2
            except Exception as ex:
                reproduced = f'replay raised {type(ex).__name__}'
        with open(path, 'w') as fh:
            json.dump({'property': pid, 'sig': sig,
                       'count': acc.viol_count[sig],
                       'reproduced_on_replay_twice': reproduced,
                       'violation': v}, fh, indent=1, default=str)
        if reproduced is not True and reproduced is not None:
            lines.append(f'  warning: replay of this case did not reproduce the violation identically ({reproduced})')
        new_paths.append((sig, path, v))
        lines.append(f'VIOLATION property={pid} replay={path}')
        if v is not None:
            lines.append(f"  sig={sig} clause={v['clause']} count={acc.viol_count[sig]}")
            lines.append(f"  detail={json.dumps(v['detail'], default=str)[:600]}")
    cov = {
        'states': len(acc.states) + acc.nstates,
        'transitions': acc.transitions,
        'traces_validated_against_impl': acc.executions,
        'evaluations': max(acc.cases, acc.executions),
        'rule': getattr(mod, 'RULE', '') + ' || states = distinct canonical states (hashed) plus cases that are distinct by construction of the enumeration; evaluations = complete executions on the real code',
        'samples': acc.samples or [{'note': 'no sample recorded'}],
        'exhaustive': not acc.caps,
        'bounds': mod.bounds(tier) if hasattr(mod, 'bounds') else {},
        'shards': nshards,
        'caps_hit': acc.caps,
        'distinct_outcomes': len(acc.outcomes),
        'outcomes': {str(k): v for k, v in acc.outcomes.most_common(40)},
        'abstract_coverage': {str(k): v for k, v in
                              sorted(acc.coverage.items(), key=str)[:200]},
        'ambiguous_skipped': acc.ambiguous,
        'known_findings_observed': [
            {'match': m, 'what': i['what'],
             'occurrences': sum(acc.viol_count[s] for s in i['sigs'])}
            for m, i in known.items()],
        'new_violation_signatures': new,
        'explanation': getattr(mod, 'EXPLANATION', ''),
    }
    cov.update(acc.extra)
    ev = {
        'property_id': pid,
        'tier': tier,
        'seed': seed,
        'level': 'model_checking',
        'coverage': cov,
        'assumptions': list(getattr(mod, 'ASSUMPTIONS', [])),
        'wall_s': round(wall, 3),
        'violations': len(new),
    }
    evdir = os.environ.get('VERIF_EVIDENCE_DIR') or os.path.join(VERIF, 'evidence')   # scratch dir for runs against seeded trees
    os.makedirs(evdir, exist_ok=True)
    tmp = os.path.join(evdir, f'.{pid}.json.tmp')
    with open(tmp, 'w') as fh:
        json.dump(ev, fh, indent=1, default=str)
    os.replace(tmp, os.path.join(evdir, f'{pid}.json'))
    print(f'{pid} tier={tier} seed={seed} shards={nshards} states={len(acc.states) + acc.nstates} '
          f'transitions={acc.transitions} executions={acc.executions} '
          f'outcomes={len(acc.outcomes)} ambiguous={acc.ambiguous} '
          f'known={len(known)} new={len(new)} wall={wall:.1f}s')
    for l in lines:
        print(l)
    sys.stdout.flush()
    return 1 if new else 0


def main(modname, argv):
    import argparse
    import importlib
    ap = argparse.ArgumentParser()
    ap.add_argument('--tier', default=os.environ.get('VERIF_TIER', 'quick'))
    ap.add_argument('--replay')
    ap.add_argument('--jobs', type=int)
    a = ap.parse_args(argv)
    seed = int(os.environ.get('VERIF_SEED', '0') or 0)
    mod = importlib.import_module(modname)
    if a.replay:
        data = json.load(open(a.replay))
        v = data.get('violation') or data
        _init(modname, a.tier)
        res = mod.replay(v['case'])
        if res:
            for r in res:
                print(f"REPLAY-VIOLATION property={mod.ID} sig={r['sig']} "
                      f"detail={json.dumps(r['detail'], default=str)[:800]}")
            return 1
        print(f'REPLAY-OK property={mod.ID}: case no longer violates')
        return 0
    t0 = time.time()
    from gmc import sim
    sim.determinism_selfcheck()
    acc, n = explore(mod, a.tier, seed, a.jobs)
    # determinism self-check: replay first sample twice if the module offers it
    if hasattr(mod, 'selfcheck'):
        mod.selfcheck()
    return finish(mod, a.tier, seed, acc, n, time.time() - t0,
                  os.path.join(VERIF, 'replays'))
