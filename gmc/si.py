"""Independent SI table, built compositionally from unit definitions.

Nothing here imports gearpy.  Every factor is an exact rational times an
integer power of pi; floats are produced only at the very end, correctly
rounded (pi is carried as a 60-digit rational).
"""
from fractions import Fraction as F
import math

PI = F("3.14159265358979323846264338327950288419716939937510582097494459")

# --- primitive definitions -------------------------------------------------
_LEN = {'m': F(1), 'dm': F(1, 10), 'cm': F(1, 100), 'mm': F(1, 1000)}
_MASS = {'kg': F(1), 'g': F(1, 1000)}
_TIME = {'sec': F(1), 'min': F(60), 'hour': F(3600), 'ms': F(1, 1000)}
_G0 = F("9.80665")            # standard gravity, exact by definition
_FORCE = {'N': F(1), 'mN': F(1, 1000), 'kN': F(1000), 'kgf': _G0,
          'gf': _G0 / 1000}
# angle: (rational, power of pi)
_ANGLE = {'rad': (F(1), 0), 'deg': (F(1, 180), 1), 'arcmin': (F(1, 180 * 60), 1),
          'arcsec': (F(1, 180 * 3600), 1), 'rot': (F(2), 1)}


def _plain(d):
    return {k: (v, 0) for k, v in d.items()}


def _angular_speed():
    out = {}
    for a, t, name in [('rad', 'sec', 'rad/s'), ('rad', 'min', 'rad/min'),
                       ('rad', 'hour', 'rad/h'), ('deg', 'sec', 'deg/s'),
                       ('deg', 'min', 'deg/min'), ('deg', 'hour', 'deg/h'),
                       ('rot', 'sec', 'rps'), ('rot', 'min', 'rpm'),
                       ('rot', 'hour', 'rph')]:
        q, p = _ANGLE[a]
        out[name] = (q / _TIME[t], p)
    return out


def _angular_acc():
    out = {}
    for a, name in [('rad', 'rad/s^2'), ('deg', 'deg/s^2'), ('rot', 'rot/s^2')]:
        out[name] = _ANGLE[a]
    return out


def _inertia():
    return {f'{m}{l}^2': (_MASS[m] * _LEN[l] ** 2, 0)
            for m in _MASS for l in _LEN}


def _torque():
    out = {}
    for f in _FORCE:
        for l in _LEN:
            if f == 'N' and l != 'm':
                continue          # gearpy offers only Nm for the bare newton
            out[f'{f}{l}'] = (_FORCE[f] * _LEN[l], 0)
    return out


def _surface():
    return {f'{l}^2': (_LEN[l] ** 2, 0) for l in _LEN}


_STRESS = {'Pa': F(1), 'kPa': F(1000), 'MPa': F(10 ** 6), 'GPa': F(10 ** 9)}
_CURRENT = {'A': F(1), 'mA': F(1, 1000), 'uA': F(1, 10 ** 6)}

EXACT = {
    'AngularPosition': dict(_ANGLE),
    'Angle': dict(_ANGLE),
    'AngularSpeed': _angular_speed(),
    'AngularAcceleration': _angular_acc(),
    'InertiaMoment': _inertia(),
    'Torque': _torque(),
    'Time': _plain(_TIME),
    'TimeInterval': _plain(_TIME),
    'Length': _plain(_LEN),
    'Surface': _surface(),
    'Force': _plain(_FORCE),
    'Stress': _plain(_STRESS),
    'Current': _plain(_CURRENT),
}

KINDS = list(EXACT)
UNITS = {k: list(v) for k, v in EXACT.items()}
SI_UNIT = {'AngularPosition': 'rad', 'Angle': 'rad', 'AngularSpeed': 'rad/s',
           'AngularAcceleration': 'rad/s^2', 'InertiaMoment': 'kgm^2',
           'Torque': 'Nm', 'Time': 'sec', 'TimeInterval': 'sec', 'Length': 'm',
           'Surface': 'm^2', 'Force': 'N', 'Stress': 'Pa', 'Current': 'A'}

# sign constraints: 'pos' strictly positive, 'nonneg' >= 0, None free
CONSTRAINT = {'AngularPosition': None, 'Angle': 'nonneg', 'AngularSpeed': None,
              'AngularAcceleration': None, 'InertiaMoment': 'pos',
              'Torque': None, 'Time': None, 'TimeInterval': 'pos',
              'Length': 'pos', 'Surface': 'pos', 'Force': None, 'Stress': None,
              'Current': None}

PARENT = {'Angle': 'AngularPosition', 'TimeInterval': 'Time'}


def exact_factor(kind, unit):
    q, p = EXACT[kind][unit]
    return q * PI ** p if p >= 0 else q / PI ** (-p)


def factor(kind, unit):
    """SI value of one `unit` of `kind`, as the nearest float."""
    return _to_float(exact_factor(kind, unit))


def exact_ratio(kind, u, v):
    qu, pu = EXACT[kind][u]
    qv, pv = EXACT[kind][v]
    r = qu / qv
    d = pu - pv
    if d > 0:
        r *= PI ** d
    elif d < 0:
        r /= PI ** (-d)
    return r


def _to_float(fr):
    # Fraction.__float__ is correctly rounded (integer division with rounding)
    return float(fr)


def convert(value, kind, u, v):
    """Correctly rounded conversion of `value` u -> v (exact when u == v)."""
    if u == v:
        return value
    if value == 0:
        return 0.0
    return _to_float(F(value) * exact_ratio(kind, u, v))


def convert_exact(value, kind, u, v):
    return F(value) * exact_ratio(kind, u, v)


def si(value, kind, unit):
    """SI magnitude of value `unit`, nearest float."""
    if value == 0:
        return 0.0
    return _to_float(F(value) * exact_factor(kind, unit))


def si_exact(value, kind, unit):
    return F(value) * exact_factor(kind, unit)


def kind_of(q):
    """Kind name of a gearpy quantity object (by class name only)."""
    return type(q).__name__


def q_si(q):
    """SI magnitude of a gearpy quantity, through THIS table (never q.to())."""
    return si(q.value, type(q).__name__, q.unit)


def ulp(x):
    return math.ulp(x)


def ulps_apart(a, b):
    """Distance between two floats in units in the last place of the larger."""
    if a == b:
        return 0.0
    if math.isnan(a) or math.isnan(b) or math.isinf(a) or math.isinf(b):
        return math.inf
    m = max(abs(a), abs(b))
    return abs(a - b) / math.ulp(m)


def close(a, b, rel=1e-9, scale=0.0):
    if a is None or b is None:
        return a is b
    if math.isnan(a) or math.isnan(b):
        return False
    return abs(a - b) <= rel * max(abs(a), abs(b), scale)
