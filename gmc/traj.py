"""Per-instant oracles on a recorded trajectory (C01, C02, C03, C13).

Every function takes the observation dict produced by sim.Model.observe()
(SI floats read through gmc/si.py), the reference ChainRef, and reports
violations through `emit(sig_suffix, clause, k, detail)`.
"""
import math

from gmc import ref, si

REL = 1e-9


def _close(a, b, scale):
    return si.close(a, b, REL, scale)


# ---------------------------------------------------------------------------
# C01 kinematic coupling
# ---------------------------------------------------------------------------
def coupling(obs, chain, emit):
    n = chain.n
    nk = len(obs['time'])
    checked = 0
    for k in range(nk):
        for i in range(n - 1):
            r = chain.ratios[i + 1]
            for var, tag in (('angular position', 'position'), ('angular speed', 'speed'),
                             ('angular acceleration', 'acceleration')):
                su, sd = obs['el'][i][var], obs['el'][i + 1][var]
                up = su[k] if k < len(su) else None
                dn = sd[k] if k < len(sd) else None
                checked += 1
                if up is None or dn is None:
                    emit(f'{tag}/missing', f'{tag} recorded', k, {'i': i})
                    continue
                if not _close(up, r * dn, 0.0):
                    emit(f'{tag}', f'upstream {tag} = ratio x downstream', k,
                         {'i': i, 'up': up, 'down': dn, 'ratio': r, 'first_instant': k == 0})
    return checked


# ---------------------------------------------------------------------------
# C02 torque propagation and balance
# ---------------------------------------------------------------------------
def torques(obs, chain, emit, load_fn=None, load_calls=None, dead_tol=True):
    """load_fn(k, t, theta, w) -> Nm is the reference load function."""
    n = chain.n
    nk = len(obs['time'])
    checked = 0
    pwm = obs['el'][0].get('pwm')
    for k in range(nk):
        w_m = obs['el'][0]['angular speed'][k]
        D = pwm[k] if pwm else 1
        Td = [obs['el'][i]['driving torque'][k] for i in range(n)]
        Tl = [obs['el'][i]['load torque'][k] for i in range(n)]
        T = [obs['el'][i]['torque'][k] for i in range(n)]
        # motor characteristic at recorded speed and duty cycle
        Tref = chain.motor_torque(D, w_m)
        scale = chain.Tmax * (1 + abs(w_m) / (max(abs(D), 1e-3) * chain.w0))
        near_dead = False
        if chain.has_current():
            lim = chain.i0 / chain.imax
            near_dead = abs(abs(D) - lim) <= 1e-9
        checked += 1
        if not near_dead and not _close(Td[0], Tref, scale * 1e-6):
            emit('motor-characteristic', 'motor driving torque = characteristic(speed, duty)', k,
                 {'got': Td[0], 'ref': Tref, 'D': D, 'w': w_m})
        for i in range(1, n):
            eta, r = chain.etas[i], chain.ratios[i]
            checked += 2
            if not _close(Td[i], Td[i - 1] * eta * r, abs(Td[0]) * 1e-9):
                emit('driving-chain', 'Td_i = Td_{i-1} * eta * ratio', k,
                     {'i': i, 'got': Td[i], 'ref': Td[i - 1] * eta * r, 'eta': eta, 'ratio': r})
            if not _close(Tl[i - 1], Tl[i] / eta / r, abs(Tl[n - 1]) * 1e-9):
                emit('load-chain', 'Tl_{i-1} = Tl_i / (eta * ratio)', k,
                     {'i': i, 'got': Tl[i - 1], 'ref': Tl[i] / eta / r, 'eta': eta, 'ratio': r})
        for i in range(n):
            checked += 1
            if not _close(T[i], Td[i] - Tl[i], max(abs(Td[i]), abs(Tl[i]))):
                emit('net', 'T = Td - Tl', k, {'i': i, 'got': T[i], 'ref': Td[i] - Tl[i]})
        if load_fn is not None:
            th = obs['el'][n - 1]['angular position'][k]
            w = obs['el'][n - 1]['angular speed'][k]
            t = obs['time'][k]
            exp = load_fn(k, t, th, w)
            checked += 1
            if not _close(Tl[n - 1], exp, abs(exp) * 1e-9 + 1e-300):
                emit('load-function', 'load torque = f(recorded position, speed, time)', k,
                     {'got': Tl[n - 1], 'ref': exp, 'theta': th, 'w': w, 't': t})
    if load_calls is not None:
        # the callback's arguments at instant k are the recorded position, speed and time[k]
        byk = {}
        for (k, t, th, w) in load_calls:
            byk.setdefault(k, []).append((t, th, w))
        for k in range(nk):
            calls = byk.get(k, [])
            checked += 1
            if not calls:
                emit('load-not-evaluated', 'the load function is evaluated at every instant', k, {})
                continue
            # (how often the function is consulted is the implementation's business: one consultation with
            #  this instant's recorded state must exist)
            def matches(c):
                t, th, w = c
                return (_close(si.q_si(t), obs['time'][k], 0.0)
                        and _close(si.q_si(th), obs['el'][n - 1]['angular position'][k], 0.0)
                        and _close(si.q_si(w), obs['el'][n - 1]['angular speed'][k], 0.0))
            t, th, w = calls[-1]
            if not any(matches(c) for c in calls):
                emit('load-args', 'load function sees this instant\'s time, recorded position and speed', k,
                     {'t_arg': si.q_si(t), 't_rec': obs['time'][k],
                      'theta_arg': si.q_si(th), 'theta_rec': obs['el'][n - 1]['angular position'][k],
                      'w_arg': si.q_si(w), 'w_rec': obs['el'][n - 1]['angular speed'][k]})
    return checked


# ---------------------------------------------------------------------------
# C03 equation of motion and time-step update
# ---------------------------------------------------------------------------
def motion(obs, chain, emit, dts, starts):
    """dts[k]: step used to reach instant k (None where a run (re)starts from
    initial conditions); starts: set of instants that are instant 0 of a fresh run."""
    n = chain.n
    last = obs['el'][n - 1]
    nk = len(obs['time'])
    checked = 0
    for k in range(nk):
        w = last['angular speed'][k]
        a = last['angular acceleration'][k]
        T = last['torque'][k]
        held_possible = chain.self_locking and w == 0.0 and a == 0.0
        checked += 1
        if not held_possible:
            if not _close(a, T / chain.J, abs(T / chain.J) * 1e-9 + 1e-300):
                emit('acceleration', 'a_last = T_last / J_equivalent', k,
                     {'got': a, 'ref': T / chain.J, 'T': T, 'J': chain.J})
        if k in starts or dts[k] is None:
            continue
        dt = dts[k]
        w_star = last['angular speed'][k - 1] + last['angular acceleration'][k - 1] * dt
        th_exp = last['angular position'][k - 1] + w_star * dt
        sc = abs(last['angular speed'][k - 1]) + abs(last['angular acceleration'][k - 1] * dt)
        checked += 2
        ok_speed = _close(w, w_star, sc)
        if not ok_speed and chain.self_locking and w == 0.0:
            ok_speed = True                      # clamp: C13 judges whether it was right
        if not ok_speed:
            emit('speed-update', 'w_{k+1} = w_k + a_k dt', k,
                 {'got': w, 'ref': w_star, 'dt': dt})
        th = last['angular position'][k]
        if not _close(th, th_exp, abs(last['angular position'][k - 1]) + abs(w_star * dt)):
            emit('position-update', 'theta_{k+1} = theta_k + w* dt', k,
                 {'got': th, 'ref': th_exp, 'w_star': w_star, 'dt': dt})
    return checked


# ---------------------------------------------------------------------------
# C13 self-locking
# ---------------------------------------------------------------------------
def sgn(x, tol=0.0):
    return 0 if abs(x) <= tol else (1 if x > 0 else -1)


def locking(obs, chain, emit, dts, starts, cover=None, duty_overrides=None):
    """Runs the reference lock automaton alongside the recorded trajectory.

    starts: dict  k -> {'D': duty cycle in force before the fresh run (motor
    attribute), 'Tm': motor net torque attribute before the run (None if never
    computed), 'w_pre': motor speed implied by the initial conditions,
    'locked': automaton flag carried into the run}.
    Returns (clauses checked, ambiguous decisions skipped).
    """
    n = chain.n
    nk = len(obs['time'])
    m = obs['el'][0]
    last = obs['el'][n - 1]
    pwm = m.get('pwm')
    locked = False
    checked = ambiguous = 0
    prev_held = False
    for k in range(nk):
        fresh = k in starts
        if fresh:
            st = starts[k]
            D_f, Tm_prev, w_pre, locked = st['D'], st['Tm'], st['w_pre'], st['locked']
            prev_held = False
        else:
            D_f = pwm[k - 1]
            # the motor's net torque at the previous instant, recomputed by the reference from the recorded speed, duty
            # cycle and external load (not taken from the recorded torque: a wrong recorded torque must not steer the oracle)
            Tl_m = last['load torque'][k - 1]
            for i in range(n - 1, 0, -1):
                Tl_m = Tl_m / chain.etas[i] / chain.ratios[i]
            Tm_prev = chain.motor_torque(pwm[k - 1], m['angular speed'][k - 1]) - Tl_m
            if not _close(Tm_prev, m['torque'][k - 1], chain.Tmax * 1e-6 + abs(Tl_m) * 1e-9):
                emit('motor-net-torque', 'motor net torque at a recorded instant = characteristic(recorded speed, duty) - reflected load', k - 1,
                     {'recorded': m['torque'][k - 1], 'reference': Tm_prev, 'D': pwm[k - 1], 'w_motor': m['angular speed'][k - 1]})
            if duty_overrides and k in duty_overrides:
                # the user set the duty cycle by hand between two runs: that value is in force at the first continued
                # instant (the motor net torque of the previous instant still belongs to the previous duty cycle)
                D_f = duty_overrides[k]
            w_pre = (last['angular speed'][k - 1]
                     + last['angular acceleration'][k - 1] * dts[k]) * chain.up[0]
        w_m = m['angular speed'][k]
        a_m = m['angular acceleration'][k]
        if not chain.self_locking:
            checked += 1
            if w_pre != 0.0 and w_m == 0.0 and a_m == 0.0 and abs(w_pre) > 1e-9 * chain.w0:
                emit('clamped-without-self-locking',
                     'a powertrain without a self-locking mating is never clamped', k, {'w_pre': w_pre})
            continue
        # (a) direction of the motor speed versus the duty cycle in force
        checked += 1
        if D_f == 0 and w_m != 0.0:
            emit('driven-by-load/zero-duty', 'motor speed is 0 while the duty cycle in force is 0', k,
                 {'w_motor': w_m, 'D_in_force': D_f})
        elif D_f > 0 and w_m < 0:
            emit('driven-by-load/positive-duty', 'motor speed >= 0 while the duty cycle in force is > 0', k,
                 {'w_motor': w_m, 'D_in_force': D_f})
        elif D_f < 0 and w_m > 0:
            emit('driven-by-load/negative-duty', 'motor speed <= 0 while the duty cycle in force is < 0', k,
                 {'w_motor': w_m, 'D_in_force': D_f})
        # the automaton
        was = locked
        locked, _ = ref.lock_decision(True, locked, D_f, w_pre, Tm_prev)
        near_w = w_pre != 0.0 and abs(w_pre) <= 1e-9 * chain.w0
        near_T = Tm_prev is not None and Tm_prev != 0.0 and abs(Tm_prev) <= 1e-9 * chain.Tmax
        if near_w or near_T:
            # discrete decision within rounding distance of its threshold:
            # take the implementation's answer and go on
            ambiguous += 1
            locked = (w_m == 0.0 and a_m == 0.0)
        if cover is not None:
            cover[(was, sgn(D_f), sgn(w_pre), None if Tm_prev is None else sgn(Tm_prev), locked)] += 1
        checked += 1
        if locked:
            for i in range(n):
                if obs['el'][i]['angular speed'][k] != 0.0 or obs['el'][i]['angular acceleration'][k] != 0.0:
                    emit('held-not-still', 'while held every speed and acceleration is exactly 0', k,
                         {'i': i, 'w': obs['el'][i]['angular speed'][k],
                          'a': obs['el'][i]['angular acceleration'][k],
                          'D_in_force': D_f, 'w_pre': w_pre, 'T_motor_prev': Tm_prev, 'was_held': was})
                    break
            if prev_held:
                for i in range(n):
                    if obs['el'][i]['angular position'][k] != obs['el'][i]['angular position'][k - 1]:
                        emit('held-position-moves', 'positions stay constant while held', k,
                             {'i': i, 'before': obs['el'][i]['angular position'][k - 1],
                              'after': obs['el'][i]['angular position'][k]})
                        break
        else:
            if prev_held:
                if not ((Tm_prev is not None and Tm_prev > 0 and D_f > 0)
                        or (Tm_prev is not None and Tm_prev < 0 and D_f < 0)):
                    emit('resumed-against-command',
                         'motion resumes only when the motor net torque points in the commanded direction', k,
                         {'T_motor_prev': Tm_prev, 'D_in_force': D_f})
            if not _close(w_m, w_pre, abs(w_pre)) and not (w_pre == 0.0 and w_m == 0.0):
                emit('clamped-while-free', 'not held: the speed is the integrated speed', k,
                     {'w_motor': w_m, 'w_pre': w_pre, 'D_in_force': D_f, 'T_motor_prev': Tm_prev,
                      'was_held': was})
        prev_held = locked
    return checked, ambiguous
