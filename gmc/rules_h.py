"""Harness pieces shared by C14/C15: rule menus, state setting, recording proxies."""
import math

from gearpy.motor_control import PWMControl
from gearpy.motor_control.rules import (ConstantPWM, ReachAngularPosition, StartLimitCurrent,
                                        StartProportionalToAngularPosition)
from gearpy.motor_control.rules.rules_base import RuleBase
from gearpy.sensors import AbsoluteRotaryEncoder, Tachometer, Timer
from gearpy.units import (Angle, AngularAcceleration, AngularPosition, AngularSpeed, Current, Time,
                          TimeInterval, Torque)

from gmc import sim, si


class ConstRule(RuleBase):
    """User rule proposing a fixed value (public extension point)."""

    def __init__(self, value):
        self.value = value

    def apply(self):
        return self.value


class Proxy(RuleBase):
    """Delegates to a real rule and logs (instant, proposal)."""

    def __init__(self, rule, model, log, tag):
        self.rule, self.model, self.log, self.tag = rule, model, log, tag

    def apply(self):
        k = len(self.model.pt.time) - 1
        try:
            v = self.rule.apply()
        except Exception as e:
            self.log.append((k, self.tag, ('exc', type(e).__name__)))
            raise
        self.log.append((k, self.tag, v))
        return v


def set_state(m, chain, t, theta_last, w_last, motor_load=None, t_unit='sec'):
    """Put the real objects in a given state through public setters."""
    m.pt.update_time(Time(si.convert(t, 'Time', 'sec', t_unit), t_unit))
    for i, e in enumerate(m.elements):
        e.angular_position = AngularPosition(theta_last * chain.up[i], 'rad')
        e.angular_speed = AngularSpeed(w_last * chain.up[i], 'rad/s')
        e.angular_acceleration = AngularAcceleration(0.0, 'rad/s^2')
    if motor_load is not None:
        m.elements[0].load_torque = Torque(motor_load, 'Nm')


# rule menu: id -> constructor(model) ; windows chosen to overlap or not
def make_rule(rid, m):
    pt = m.pt
    last = m.elements[-1]
    motor = m.elements[0]
    if rid == 'cA':
        return ConstantPWM(timer=Timer(Time(0.2, 'sec'), TimeInterval(0.3, 'sec')), powertrain=pt, target_pwm_value=0.5)
    if rid == 'cB':
        return ConstantPWM(timer=Timer(Time(400.0, 'ms'), TimeInterval(500.0, 'ms')), powertrain=pt, target_pwm_value=-0.7)
    if rid == 'c0':
        # proposes exactly 0 in a window overlapping cA and cB
        return ConstantPWM(timer=Timer(Time(0.4, 'sec'), TimeInterval(0.35, 'sec')), powertrain=pt, target_pwm_value=0)
    if rid == 's0':
        return ConstRule(0)
    if rid == 'cC':
        return ConstantPWM(timer=Timer(Time(2.0, 'sec'), TimeInterval(1.0, 'sec')), powertrain=pt, target_pwm_value=1)
    if rid == 'reach':
        return ReachAngularPosition(encoder=AbsoluteRotaryEncoder(last), powertrain=pt,
                                    target_angular_position=AngularPosition(10.0, 'rad'),
                                    braking_angle=Angle(2.0, 'rad'))
    if rid == 'prop':
        return StartProportionalToAngularPosition(encoder=AbsoluteRotaryEncoder(last), powertrain=pt,
                                                  target_angular_position=AngularPosition(3.0, 'rad'),
                                                  pwm_min_multiplier=2)
    if rid == 'lim':
        return StartLimitCurrent(encoder=AbsoluteRotaryEncoder(last), tachometer=Tachometer(motor), motor=motor,
                                 target_angular_position=AngularPosition(4.0, 'rad'),
                                 limit_electric_current=Current(1.0, 'A'))
    if rid == 'limlow':
        # limit below the no-load current
        return StartLimitCurrent(encoder=AbsoluteRotaryEncoder(last), tachometer=Tachometer(motor), motor=motor,
                                 target_angular_position=AngularPosition(4.0, 'rad'),
                                 limit_electric_current=Current(50.0, 'mA'))
    if rid == 'sNone':
        return ConstRule(None)
    if rid == 's0.5':
        return ConstRule(0.5)
    if rid == 's-3':
        return ConstRule(-3)
    if rid == 's1e9':
        return ConstRule(1e9)
    if rid == 's-1e9':
        return ConstRule(-1e9)
    raise ValueError(rid)


BUILTIN_KIND = {'c0': 'ConstantPWM', 's0': 'script', 'cA': 'ConstantPWM', 'cB': 'ConstantPWM', 'cC': 'ConstantPWM', 'reach': 'ReachAngularPosition',
                'prop': 'StartProportionalToAngularPosition', 'lim': 'StartLimitCurrent',
                'limlow': 'StartLimitCurrent', 'sNone': 'script', 's0.5': 'script', 's-3': 'script',
                's1e9': 'script', 's-1e9': 'script'}


def is_number(x):
    return isinstance(x, (int, float)) and not isinstance(x, bool)


def in_range(x):
    return is_number(x) and -1 <= x <= 1          # NaN fails both comparisons


def clip(p):
    return min(max(p, -1), 1)


class Probe(RuleBase):
    """Placed first in a control: when consulted it asks every real rule for its proposal in the current state
    and logs them (rules are functions of the state), so the oracle does not depend on how, how often or in which
    order the control itself consults its rules.  It never proposes anything."""

    def __init__(self, rules, model, log):
        self.rules, self.model, self.log = rules, model, log

    def apply(self):
        k = len(self.model.pt.time) - 1
        if any(e[0] == k for e in self.log):
            return None
        props = []
        for r in self.rules:
            try:
                props.append(r.apply())
            except Exception as e:
                props.append(('exc', type(e).__name__))
        self.log.append((k, props))
        return None
