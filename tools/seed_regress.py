#!/venv/bin/python
"""Regression over every seeded change at /repo's current HEAD.
usage: tools/seed_regress.py [ids...]        (default: every directory of /verif/seeded)
For each seed, in one scratch worktree of /repo (removed afterwards):
  demo.py on the unmodified tree must pass, with patch.diff applied it must fail,
  and the quick check of the seed's property must report a violation.
Nothing is written to /verif/evidence (VERIF_EVIDENCE_DIR=/tmp/seed_evidence).
Writes seeded/REGRESSION.md; exit 1 if a seed that used to be detected is no longer.
"""
import json, os, subprocess, sys, time
HERE = os.path.dirname(os.path.dirname(os.path.abspath(__file__)))
SEEDED = os.path.join(HERE, 'seeded')


def sh(cmd):
    return subprocess.run(cmd, shell=True, capture_output=True, text=True)


def one(sid):
    d = os.path.join(SEEDED, sid)
    pid = sid.split('-')[0]
    meta = json.load(open(os.path.join(d, 'meta.json')))
    wt = f'/tmp/seedreg_{sid}'
    sh(f'git -C /repo worktree remove --force {wt}; rm -rf {wt}')
    sh(f'git -C /repo worktree add --detach {wt} HEAD')
    row = {'id': sid}
    try:
        sh(f'cp {d}/demo.py {wt}/_demo.py')
        r0 = sh(f'cd {wt} && PYTHONPATH={wt} /venv/bin/python _demo.py')
        ap = sh(f'cd {wt} && git apply {d}/patch.diff')
        r1 = sh(f'cd {wt} && PYTHONPATH={wt} /venv/bin/python _demo.py')
        row['applies'] = ap.returncode == 0
        row['demo'] = r0.returncode == 0 and r1.returncode != 0
        t0 = time.time()
        r = sh(f'cd {HERE} && PYTHONPATH={wt} GEARPY_REPO={wt} VERIF_EVIDENCE_DIR=/tmp/seed_evidence '
               f'/venv/bin/python -B run_check.py {pid} --tier quick')
        row['exit'] = r.returncode
        row['violations'] = sum(1 for l in r.stdout.splitlines() if l.startswith('VIOLATION'))
        row['wall'] = round(time.time() - t0, 1)
        row['detected'] = r.returncode == 1 and row['violations'] > 0
        row['expected'] = pid in meta.get('detected_by', [])
    finally:
        sh(f'git -C /repo worktree remove --force {wt}; rm -rf {wt}')
    return row


def main():
    ids = sys.argv[1:] or sorted(x for x in os.listdir(SEEDED) if os.path.isdir(os.path.join(SEEDED, x)) and not x.startswith('_'))
    head = sh('git -C /repo rev-parse --short HEAD').stdout.strip()
    rows = []
    bad = 0
    for sid in ids:
        row = one(sid)
        rows.append(row)
        flag = ''
        if not row.get('applies') or not row.get('demo'):
            flag = ' <-- demonstration no longer holds'
        if row.get('expected') and not row.get('detected'):
            flag += ' <-- NO LONGER DETECTED'
            bad += 1
        print(sid, row, flag, flush=True)
    if not sys.argv[1:]:
        with open(os.path.join(SEEDED, 'REGRESSION.md'), 'w') as f:
            f.write(f'# Regression of every seeded change at /repo {head}\n\n')
            f.write('| seed | patch applies | demo passes clean / fails patched | own quick check reports it | wall s |\n|---|---|---|---|---|\n')
            for r in rows:
                f.write(f"| {r['id']} | {r.get('applies')} | {r.get('demo')} | {r.get('detected')} | {r.get('wall')} |\n")
            f.write(f"\n{sum(1 for r in rows if r.get('detected'))} of {len(rows)} reported by the quick check of their own property.\n")
    sys.exit(1 if bad else 0)


main()
