#!/bin/sh
# queue every benign change again, verdicts reset (final pass against the current checks)
mkdir -p /tmp/benq
for d in /verif/benign/C*/; do
  id=$(basename $d); P=${id%-*}; k=${id#*-}
  echo "$P $k $d/patch.diff $d/agent_notes.md --fresh" > /tmp/benq/$id.job
done
ls /tmp/benq/*.job | wc -l
