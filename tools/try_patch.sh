#!/bin/sh
# usage: tools/try_patch.sh <patch.diff> [tier] [ids...]
# Applies the patch to /repo's working tree, runs the given checks (default: all, quick), and ALWAYS reverts.
P=$1; TIER=${2:-quick}; shift; shift
if ! git -C /repo diff --quiet; then echo "/repo working tree is dirty; refusing"; exit 2; fi
if ! git -C /repo apply --check "$P"; then echo "patch does not apply"; exit 2; fi
git -C /repo apply "$P"
trap 'git -C /repo checkout -- . ; echo "(reverted /repo)"' EXIT INT TERM
/verif/tools/run_all.sh $TIER "$@"
