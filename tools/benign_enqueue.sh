#!/bin/sh
# usage: tools/benign_enqueue.sh <Cxx>   -- copies /tmp/mut/<Cxx>/_out/benign*.diff + notes.md to /verif/benign/<Cxx>-<k>/ and queues the evaluation
P=$1
for k in 1 2 3; do
  f=/tmp/mut/$P/_out/benign$k.diff
  [ -f $f ] || continue
  d=/verif/benign/$P-$k; mkdir -p $d
  cp $f $d/patch.diff; cp /tmp/mut/$P/_out/notes.md $d/agent_notes.md 2>/dev/null
  echo "$P $k $d/patch.diff $d/agent_notes.md" > /tmp/benq/$P-$k.job
done
