#!/bin/sh
# usage: tools/suite.sh <commit-ish> <tag>   -- runs the repository's own suite on a scratch worktree of /repo at <commit-ish>
C=${1:-HEAD}; TAG=${2:-x}
WT=/tmp/gearpy_wt_$TAG
git -C /repo worktree remove --force $WT 2>/dev/null
rm -rf $WT
git -C /repo worktree add --detach $WT $C >/dev/null 2>&1
cd $WT
echo "commit $(git rev-parse --short HEAD)"
env -u GEARPY_VERIF /venv/bin/python -m pytest -q -p no:cacheprovider --timeout=900 -n 16 -W ignore 2>&1 > /tmp/suite_$TAG.full
grep -E "passed|failed|error" /tmp/suite_$TAG.full | tail -5
grep -E "^FAILED|^ERROR" /tmp/suite_$TAG.full | head -20
cd /
git -C /repo worktree remove --force $WT
rm -rf $WT
echo done
