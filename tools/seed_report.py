#!/usr/bin/env python3
"""Collect seeded/*/meta.json (+ suite.txt) into seeded/REPORT.md"""
import glob, json, os
HERE = os.path.dirname(os.path.dirname(os.path.abspath(__file__)))
rows = []
needs = json.load(open(os.path.join(HERE, 'seeded', 'needs.json')))
for mp in sorted(glob.glob(os.path.join(HERE, 'seeded', '*', 'meta.json'))):
    d = os.path.dirname(mp)
    m = json.load(open(mp))
    st = os.path.join(d, 'suite.txt')
    suite = open(st).read().strip().splitlines()[0] if os.path.exists(st) and open(st).read().strip() else 'pending'
    m['suite_with_patch'] = suite
    m['needs_to_manifest'] = needs.get(m['id'], m.get('needs_to_manifest', ''))
    json.dump(m, open(mp, 'w'), indent=1)
    sig = ''
    for c in m.get('detected_by', []):
        fs = m['checks'][c]['first_signatures']
        if fs:
            sig = fs[0].split(' clause=')[0].replace('sig=', '')
            break
    rows.append((m['id'], m['breaks_property'], 'yes' if m.get('demo_confirmed') else 'NO', suite,
                 ', '.join(m.get('detected_by', [])) or 'MISSED', sig, m.get('needs_to_manifest', '')))
with open(os.path.join(HERE, 'seeded', 'REPORT.md'), 'w') as f:
    f.write('# Seeded property-breaking changes (written by sub-agents from the property text only)\n\n')
    f.write('| seed | property | demo confirmed | repository suite with the patch | detected by (quick) | first signature | needs |\n|---|---|---|---|---|---|---|\n')
    for r in rows:
        f.write('| ' + ' | '.join(str(x) for x in r) + ' |\n')
print(open(os.path.join(HERE, 'seeded', 'REPORT.md')).read())
