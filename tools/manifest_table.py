# Table read by tools/gen_manifest.py
HOOK_COMMITS = []
NOT_APPLICABLE = {}
NOTES = ('All checks run the real gearpy code from /repo (editable install, verified at start-up) on fresh objects through public API only; '
         'no source hooks exist. Every check enumerates a finite space completely (bounds in evidence.coverage.bounds) and compares the '
         'implementation with a gearpy-free reference model (gmc/ref.py, gmc/si.py) on every transition. Genuine defects that were not '
         'repaired are listed in /verif/known_findings.txt and reported as KNOWN-FINDING lines; repaired ones are recorded there as fixed: lines. '
         'TLC / Spin / Apalache are not used (see DESIGN.md section 8).')

T = 'Trusts the reference model in gmc/ref.py / gmc/si.py and the stated comparison tolerances; says nothing about values, chains or horizons outside the enumerated bounds (listed in the evidence).'

add('C01', 'bounded exhaustive enumeration of chain topologies x loads x initial conditions x run schedules; invariant checked on every recorded instant',
    'Every chain of the grammar up to the bound (and repeated patterns to 12 elements) is simulated under every load/initial-condition/schedule of the menu, including continuation, early stop, reset/rerun and held self-locking chains; the ratio invariant is evaluated on every recorded instant and every adjacent pair.', T, 'DESIGN.md 5/C01')
add('C02', 'all duty-cycle sequences to the depth (scripted rule) on every chain x load function; reference torque relations on every instant',
    'Explores every duty-cycle sequence over {1,0.3,0,-1} to the depth on every chain/motor/load of the menu and checks motor characteristic, downstream/upstream propagation, load-function arguments (recorded by a wrapper) and torque balance on every recorded instant.', T, 'DESIGN.md 5/C02')
add('C03', 'exhaustive environment sequences (full product to depth, deviation-bounded over a longer horizon) on the real solver; one-step conformance to a reference update',
    'The environment chooses duty proposal and load torque at every instant; all sequences to the depth and all sequences with <= b deviations are executed, fresh and continued, in all inertia/time/position/speed units; every transition is compared with the reference update computed from the recorded state.', T, 'DESIGN.md 5/C03')
add('C04', 'exhaustive configuration grid x geometric dt ladder against the closed-form solution with a proven explicit-Euler bound',
    'Every configuration of the grid is simulated on a ladder of halved time steps; every instant is compared with the analytic solution under a rigorous O(dt) bound and the error ratio between rungs is checked. A finite ladder decides first-order behaviour down to its last rung, not the limit.', T, 'DESIGN.md 5/C04')
add('C05', 'exhaustive enumeration of all 607 ordered unit pairs x value alphabet x neighbour classes against an independent SI table',
    'Every ordered unit pair of every kind is converted (copy and in place) and compared (6 operators, both operand orders) over a value alphabet spanning 19 decades; the oracle is an SI table rebuilt from unit definitions.', T, 'DESIGN.md 5/C05')
add('C06', 'exhaustive enumeration of operand-kind pairs (15x15) x operators x unit choices x magnitudes against a dimension algebra and inverse laws',
    'Every ordered pair of operand kinds, every operator and every unit choice is executed; result kind, SI magnitude, admissible exceptions and the laws (a+b)-b=a, a-b=-(b-a) are checked.', T, 'DESIGN.md 5/C06')
add('C07', 'deviation-bounded exhaustive enumeration of unit assignments (every single re-expression, then pairs) with a differential oracle between two executions',
    'Six models that together use every input quantity are re-run with one quantity (every other unit of its kind) and then two quantities re-expressed; success/failure class, time axis, all histories and a snapshot must agree with the base run.', T, 'DESIGN.md 5/C07')
add('C08', 'exhaustive grid of motor constants x speeds x duty cycles including the dead-zone boundary and its +-4 ulp neighbours',
    'Every point of the grid (all current-unit combinations, every (i0, imax) pair) is driven through the real motor and compared with the documented piecewise law; exact zero in the dead zone, parity, anchor points, continuity and absence of exceptions at the boundary neighbours.', T, 'DESIGN.md 5/C08')
add('C09', 'exhaustive teeth range 10..520 x roles x data subsets (2^3 x 2^3) x geometry lists against independent formulas and embedded tables',
    'All teeth numbers to beyond the table end, every subset of optional data of gear and mate, all pressure angles and both orientations are evaluated on the real gear objects and compared with formulas written from the documentation.', T, 'DESIGN.md 5/C09')
add('C10', 'exhaustive one-step pairs x parameters, plus explicit-state BFS over declaration histories (deduplicated on relation attributes)',
    'Every ordered pair of a 72-element universe x three functions x in/out-of-range parameters is declared on fresh objects; BFS explores all sequences of calls (including failing ones) to the depth; accept/reject, post-conditions and "rejected call leaves both elements unmodified" are checked on every transition.', T, 'DESIGN.md 5/C10')
add('C11', 'exhaustive enumeration of decimal (dt, n) pairs x representations x time units x continuations against an exact rational grid',
    'Every decimal step and step count in the bound is run fresh and continued in all four time units; instant count, grid values and "none beyond T" are compared with Fractions.', T, 'DESIGN.md 5/C11')
add('C12', 'exhaustive schedules (every split point, up to 3 runs, unit combinations, reset / new solver) with a differential oracle',
    'Every schedule in the bound is executed and compared with its single-run / first-execution counterpart on the whole trajectory.', T, 'DESIGN.md 5/C12')
add('C13', 'exhaustive environment sequences (duty x load) on worm chains with a reference lock automaton run alongside; abstract situation coverage reported',
    'All (duty, load) sequences to the depth on base configurations and all deviation-bounded sequences on every geometry/friction/topology are executed; direction of motion, held state, release condition and "never clamped without self-locking" are checked at every instant.', T, 'DESIGN.md 5/C13')
add('C14', 'exhaustive rule multisets (size <= 4) x state grid one-step, plus simulations of every rule subset with recording proxies',
    'Every multiset of rules from the menu is arbitrated in every state of the grid; single-winner, default 1, clipping, conflict error and range of every recorded duty cycle are checked.', T, 'DESIGN.md 5/C14')
add('C15', 'exhaustive boundary grids per rule kind (both sides / on / +-1 ulp of every window edge) and controlled simulations',
    'Each built-in rule is evaluated on a state grid around its window boundaries for parameter grids in several units and every sensor target; StartLimitCurrent is judged by substituting its proposal into the reference current law and by the recorded current of controlled simulations.', T, 'DESIGN.md 5/C15')
add('C16', 'exhaustive thresholds (at and between every sample, all operators, sensors, elements, units) with a differential oracle against the unstopped run',
    'For every sensor/element/operator the threshold is placed below, above, midway between and exactly on every sample of the unstopped run; the stopped run must end at the first instant the plain-float comparison holds and equal the unstopped run on that prefix.', T, 'DESIGN.md 5/C16')
add('C17', 'exhaustive optional-data subsets x hosting chains x all operation histories to the depth',
    'Every subset of optional data of every element kind is simulated through every history of runs, early stops, continuations and resets; sample counts, kinds, last-sample/attribute agreement, export and snapshot are checked after every step.', T, 'DESIGN.md 5/C17')
add('C18', 'exhaustive variable subsets (up to 2047), target times, time units and unit deviations against reference interpolation',
    'Every non-empty subset of variables, every target time class and every single (thorough: pair) unit deviation is requested from the real snapshot/export and compared cell by cell with a reference interpolation.', T, 'DESIGN.md 5/C18')
add('C19', 'explicit-state BFS over straight-line programs of quantity operations on live objects; invariant on every reachable object; exhaustive constructor boundary grid',
    'All operation sequences to the depth are executed on fresh pools; after every step every live object is inspected; component constructors are probed at valid/zero/negative/boundary/+-1 ulp values.', T, 'DESIGN.md 5/C19')
add('C20', 'explicit-state BFS over relation-declaration histories on the real functions and constructor; reference = link-dict walk',
    'All histories of valid declarations to the depth are replayed; at every acyclic state the powertrain is assembled under three naming schemes and re-inspected after every further declaration; every grammar chain of 2..12 elements is also built directly.', T, 'DESIGN.md 5/C20')
