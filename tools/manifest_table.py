# Table read by tools/gen_manifest.py
HOOK_COMMITS = []
NOT_APPLICABLE = {}
NOTES = ('All checks run the real gearpy code from /repo (editable install) on fresh objects; '
         'known genuine defects are listed in /verif/known_findings.txt and reported as KNOWN-FINDING lines.')

add('C05', 'exhaustive enumeration of all 607 ordered unit pairs x value alphabet x neighbour classes against an independent SI table',
    'Every ordered unit pair of every kind is converted (copy and in place) and compared (6 operators, both operand orders) over a value alphabet spanning 19 decades; the oracle is an SI table rebuilt from unit definitions. A wrong factor for any unit, or an order-dependent comparison, cannot escape because the unit-pair space is covered completely.',
    'Trusts gmc/si.py (exact rationals and pi). Values outside the alphabet are not covered; tolerance 8 ulp for conversions.',
    'DESIGN.md 5/C05')
