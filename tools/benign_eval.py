#!/venv/bin/python
"""Evaluate one behaviour-preserving change written by a sub-agent: no check may raise an alarm on it.
usage: tools/benign_eval.py <Cxx> <n> <patch> <notes> [--checks "C01 C02 ..."]   (default: all 20 quick checks)
Copies the artefacts to /verif/benign/<Cxx>-<n>/, applies the patch in a scratch worktree of /repo (removed
afterwards), runs the quick checks against it (PYTHONPATH / GEARPY_REPO, evidence redirected), writes result.json.
"""
import json, os, shutil, subprocess, sys, time
HERE = os.path.dirname(os.path.dirname(os.path.abspath(__file__)))
ALL = [f'C{i:02d}' for i in range(1, 21)]


AFFECTED = {
    'gearpy/units/': 'C05 C06 C07 C19 C03 C08 C16',
    'gearpy/solver.py': 'C01 C02 C03 C04 C11 C12 C13 C14 C16 C17',
    'dc_motor.py': 'C08 C02 C04 C14 C15 C19 C07 C13',
    'relations.py': 'C10 C20 C13 C02 C01 C09',
    'gearpy/powertrain.py': 'C18 C20 C17 C12 C13',
    'motor_control/': 'C14 C15 C12 C07',
    'mechanical_objects/': 'C09 C10 C19 C17 C07 C20',
    'export.py': 'C18 C17',
    'sensors/': 'C16 C15 C07',
    'stop_condition': 'C16 C11',
    'gear_data': 'C09',
}


def sh(cmd):
    return subprocess.run(cmd, shell=True, capture_output=True, text=True)


def main():
    a = sys.argv[1:]
    pid, n, patch, notes = a[:4]
    checks = None
    if '--checks' in a:
        # every following token up to the next flag is a check id (quotes from a job file are tolerated)
        checks = []
        for tok in a[a.index('--checks') + 1:]:
            if tok.startswith('--'):
                break
            checks += [c for c in tok.replace('"', ' ').split() if c]
    if '--all' in a:
        checks = ALL
    if checks is None:
        # the checks whose subject lives in, or runs through, the files the patch touches (--all runs the 20 of them)
        touched = [l[6:].strip() for l in open(patch) if l.startswith('+++ b/')]
        checks = set()
        for f in touched:
            for key, cs in AFFECTED.items():
                if key in f:
                    checks.update(cs.split())
        checks.add(pid)
        checks = sorted(checks)
    bid = f'{pid}-{n}'
    out = os.path.join(HERE, 'benign', bid)
    os.makedirs(out, exist_ok=True)
    for src, dst in ((patch, 'patch.diff'), (notes, 'agent_notes.md')):
        if os.path.exists(src) and os.path.realpath(src) != os.path.realpath(os.path.join(out, dst)):
            shutil.copy(src, os.path.join(out, dst))
    wt = f'/tmp/benrun_{bid}'
    sh(f'git -C /repo worktree remove --force {wt}; rm -rf {wt}')
    sh(f'git -C /repo worktree add --detach {wt} HEAD')
    rp = os.path.join(out, 'result.json')
    res = json.load(open(rp)) if os.path.exists(rp) else {'id': bid, 'written_for': pid, 'checks': {}}
    if '--fresh' in a:
        res['checks'] = {}                                   # forget earlier verdicts (the checks have changed since)
    res['verif_commit'] = sh(f'git -C {HERE} rev-parse --short HEAD').stdout.strip()
    res['base_commit'] = sh('git -C /repo rev-parse --short HEAD').stdout.strip()
    try:
        ap = sh(f'cd {wt} && git apply {out}/patch.diff')
        res['patch_applies'] = ap.returncode == 0
        if ap.returncode == 0:
            for c in checks:
                t0 = time.time()
                r = sh(f'cd {HERE} && PYTHONPATH={wt} GEARPY_REPO={wt} VERIF_EVIDENCE_DIR=/tmp/seed_evidence /venv/bin/python -B run_check.py {c} --tier quick')
                sigs = [l.strip()[:240] for l in r.stdout.splitlines() if l.strip().startswith('sig=')]
                res['checks'][c] = {'exit': r.returncode, 'violations': sum(1 for l in r.stdout.splitlines() if l.startswith('VIOLATION')),
                                    'signatures': sigs[:6], 'wall_s': round(time.time() - t0, 1),
                                    'stderr_tail': r.stderr[-300:] if r.returncode not in (0, 1) else ''}
                print(bid, c, 'exit', r.returncode, sigs[:2], flush=True)
    finally:
        sh(f'git -C /repo worktree remove --force {wt}; rm -rf {wt}')
    res['alarms'] = sorted(c for c, d in res['checks'].items() if d['exit'] != 0)
    json.dump(res, open(rp, 'w'), indent=1)
    print(bid, 'alarms:', res['alarms'])


main()
