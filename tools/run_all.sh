#!/bin/sh
# usage: tools/run_all.sh [quick|thorough] [ids...]  -- runs the registered checks one after the other, prints one line each
TIER=${1:-quick}; shift
IDS=${@:-C01 C02 C03 C04 C05 C06 C07 C08 C09 C10 C11 C12 C13 C14 C15 C16 C17 C18 C19 C20}
cd /verif
rc=0
for c in $IDS; do
  out=$(/venv/bin/python -B run_check.py $c --tier $TIER 2>&1); r=$?
  echo "$out" | grep -E "tier=|VIOLATION|KNOWN-FINDING|Traceback|Error" | cut -c1-220
  [ $r -ne 0 ] && rc=1 && echo "  -> exit $r"
done
exit $rc
