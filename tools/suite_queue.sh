#!/bin/sh
# processes /tmp/suiteq/*.job one at a time: full suite with the seeded patch applied, result into <seed dir>/suite.txt
while true; do
  J=$(ls /tmp/suiteq/*.job 2>/dev/null | head -1)
  if [ -z "$J" ]; then sleep 20; [ -f /tmp/suiteq/STOP ] && exit 0; continue; fi
  D=$(cat $J); ID=$(basename $J .job); WT=/tmp/suitewt_$ID
  git -C /repo worktree remove --force $WT 2>/dev/null; rm -rf $WT
  git -C /repo worktree add --detach $WT HEAD >/dev/null 2>&1
  ( cd $WT && git apply $D/patch.diff && env -u GEARPY_VERIF /venv/bin/python -m pytest -q -p no:cacheprovider --timeout=900 -n 8 -W ignore > /tmp/suiteq/$ID.full 2>&1
    grep -E "passed|failed" /tmp/suiteq/$ID.full | tail -1 > $D/suite.txt
    grep -E "^FAILED" /tmp/suiteq/$ID.full | head -5 >> $D/suite.txt )
  git -C /repo worktree remove --force $WT; rm -rf $WT
  mv $J /tmp/suiteq/$ID.done
done
