#!/venv/bin/python
"""Apply each hand-written mutant of mutants/catalog.py to /repo, run the property's quick check, revert.
usage: tools/mutants.py [name-substring]   -> writes mutants/<name>.diff and prints DETECTED / MISSED"""
import os, subprocess, sys
HERE = os.path.dirname(os.path.dirname(os.path.abspath(__file__)))
sys.path.insert(0, os.path.join(HERE, 'mutants'))
import catalog

def sh(cmd):
    return subprocess.run(cmd, shell=True, capture_output=True, text=True)

flt = sys.argv[1] if len(sys.argv) > 1 else ''
WT = '/tmp/mutants_wt'
sh(f'git -C /repo worktree remove --force {WT}; rm -rf {WT}')
assert sh(f'git -C /repo worktree add --detach {WT} HEAD').returncode == 0
res = []
for m in catalog.M:
    if flt not in m['name']:
        continue
    path = os.path.join(WT, m['path'])
    src = open(path).read()
    if src.count(m['old']) < 1:
        print(f"{m['name']}: OLD TEXT NOT FOUND"); res.append((m['name'], 'stale')); continue
    try:
        open(path, 'w').write(src.replace(m['old'], m['new'], 1))
        diff = sh(f'git -C {WT} diff').stdout
        open(os.path.join(HERE, 'mutants', m['name'] + '.diff'), 'w').write(diff)
        imp = sh(f'cd {WT} && PYTHONPATH={WT} /venv/bin/python -c "import gearpy"')
        if imp.returncode != 0:
            print(f"{m['name']}: DOES NOT IMPORT"); res.append((m['name'], 'broken')); continue
        r = sh(f"cd {HERE} && PYTHONPATH={WT} GEARPY_REPO={WT} VERIF_EVIDENCE_DIR=/tmp/seed_evidence /venv/bin/python -B run_check.py {m['prop']} --tier quick")
        viol = [l for l in r.stdout.splitlines() if l.startswith('VIOLATION')]
        sigs = [l.strip() for l in r.stdout.splitlines() if l.strip().startswith('sig=')]
        ok = r.returncode == 1 and viol
        print(f"{m['name']}: {'DETECTED' if ok else 'MISSED'} by {m['prop']} quick  {sigs[0][:110] if sigs else ''}")
        res.append((m['name'], 'detected' if ok else 'missed'))
    finally:
        sh(f'git -C {WT} checkout -- .')
sh(f'git -C /repo worktree remove --force {WT}; rm -rf {WT}')
print({k: sum(1 for _, s in res if s == k) for k in ('detected', 'missed', 'stale', 'broken')})
