#!/venv/bin/python
"""setup_cmd: nothing to build (pure Python); verify the environment offline."""
import os, sys
sys.path.insert(0, os.path.dirname(os.path.dirname(os.path.abspath(__file__))))
import gearpy, numpy, scipy, pandas
from gmc import si, core
root = os.path.realpath(os.path.dirname(os.path.dirname(gearpy.__file__)))
assert root == os.path.realpath('/repo'), root
assert sum(len(v) ** 2 for v in si.UNITS.values()) == 607
os.makedirs(os.path.join(core.VERIF, 'evidence'), exist_ok=True)
os.makedirs(os.path.join(core.VERIF, 'replays'), exist_ok=True)
print('setup ok: gearpy from', root)
