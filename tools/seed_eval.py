#!/venv/bin/python
"""Evaluate one sub-agent mutation.
usage: tools/seed_eval.py <Cxx> <n> <patch> <demo> <notes> [--checks "C03 C12"] [--tier quick]
 1. copies the artefacts to /verif/seeded/<Cxx>-<n>/
 2. confirms the demonstration in a scratch worktree (fails with the patch, passes without)
 3. applies the patch to /repo, runs the listed checks (default: the property's own), reverts
 4. queues a full-suite run with the patch (tools/suite_queue.sh processes the queue)
 5. writes meta.json
"""
import json, os, shutil, subprocess, sys, time
HERE = os.path.dirname(os.path.dirname(os.path.abspath(__file__)))


def sh(cmd, **kw):
    return subprocess.run(cmd, shell=True, capture_output=True, text=True, **kw)


def main():
    a = sys.argv[1:]
    pid, n, patch, demo, notes = a[:5]
    checks = [pid]
    tier = 'quick'
    if '--checks' in a:
        checks = a[a.index('--checks') + 1].split()
    if '--tier' in a:
        tier = a[a.index('--tier') + 1]
    sid = f'{pid}-{n}'
    out = os.path.join(HERE, 'seeded', sid)
    os.makedirs(out, exist_ok=True)
    def cp(src, dst):
        if os.path.exists(src) and os.path.realpath(src) != os.path.realpath(dst):
            shutil.copy(src, dst)
    cp(patch, os.path.join(out, 'patch.diff'))
    cp(demo, os.path.join(out, 'demo.py'))
    cp(notes, os.path.join(out, 'agent_notes.md'))
    meta = {'id': sid, 'breaks_property': pid, 'base_commit': sh('git -C /repo rev-parse --short HEAD').stdout.strip(), 'ran': []}
    # 2. demonstration in a scratch worktree
    wt = f'/tmp/seedchk_{sid}'
    sh(f'git -C /repo worktree remove --force {wt}; rm -rf {wt}')
    sh(f'git -C /repo worktree add --detach {wt} HEAD')
    try:
        shutil.copy(os.path.join(out, 'demo.py'), os.path.join(wt, '_demo.py'))
        r0 = sh(f'cd {wt} && PYTHONPATH={wt} /venv/bin/python _demo.py')
        ap = sh(f'cd {wt} && git apply {out}/patch.diff')
        r1 = sh(f'cd {wt} && PYTHONPATH={wt} /venv/bin/python _demo.py')
        meta['demo_unmodified_exit'] = r0.returncode
        meta['demo_with_patch_exit'] = r1.returncode
        meta['patch_applies'] = ap.returncode == 0
        meta['demo_confirmed'] = (r0.returncode == 0 and r1.returncode != 0 and ap.returncode == 0)
        meta['demo_output_with_patch_tail'] = (r1.stdout + r1.stderr)[-600:]
        meta['ran'].append(f'scratch worktree {wt}: demo.py unmodified -> exit {r0.returncode}; with patch -> exit {r1.returncode}')
    finally:
        sh(f'git -C /repo worktree remove --force {wt}; rm -rf {wt}')
    # 3. checks against the patch, in a scratch worktree (PYTHONPATH + GEARPY_REPO make run_check.py import that tree),
    #    so that /repo itself is never modified while other checks may be running
    detected = {}
    wt = f'/tmp/seedrun_{sid}'
    sh(f'git -C /repo worktree remove --force {wt}; rm -rf {wt}')
    sh(f'git -C /repo worktree add --detach {wt} HEAD')
    try:
        ap = sh(f'cd {wt} && git apply {out}/patch.diff')
        if ap.returncode == 0:
            for c in checks:
                t0 = time.time()
                r = sh(f'cd {HERE} && PYTHONPATH={wt} GEARPY_REPO={wt} VERIF_EVIDENCE_DIR=/tmp/seed_evidence /venv/bin/python -B run_check.py {c} --tier {tier}')
                sigs = [l.strip()[:200] for l in r.stdout.splitlines() if l.strip().startswith('sig=')]
                detected[c] = {'exit': r.returncode, 'violations': sum(1 for l in r.stdout.splitlines() if l.startswith('VIOLATION')),
                               'first_signatures': sigs[:4], 'wall_s': round(time.time() - t0, 1), 'tier': tier}
                meta['ran'].append(f'scratch worktree of /repo HEAD + patch.diff; PYTHONPATH=<wt> GEARPY_REPO=<wt> run_check.py {c} --tier {tier} -> exit {r.returncode}')
    finally:
        sh(f'git -C /repo worktree remove --force {wt}; rm -rf {wt}')
    mp = os.path.join(out, 'meta.json')
    if os.path.exists(mp):
        prev = json.load(open(mp)).get('checks', {})
        for c, d in prev.items():
            detected.setdefault(c, d)
    meta['checks'] = detected
    meta['detected_by'] = sorted(c for c, d in detected.items() if d['exit'] == 1 and d['violations'] > 0)
    # 4. queue the suite
    os.makedirs('/tmp/suiteq', exist_ok=True)
    open(f'/tmp/suiteq/{sid}.job', 'w').write(out)
    old = {}
    mp = os.path.join(out, 'meta.json')
    if os.path.exists(mp):
        old = json.load(open(mp))
    for k in ('suite_with_patch', 'needs_to_manifest', 'summary'):
        if k in old and k not in meta:
            meta[k] = old[k]
    json.dump(meta, open(mp, 'w'), indent=1)
    print(sid, 'demo_confirmed=', meta['demo_confirmed'], 'detected_by=', meta['detected_by'],
          {c: d['first_signatures'][:1] for c, d in detected.items()})


main()
