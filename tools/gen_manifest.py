#!/usr/bin/env python3
"""Regenerate MANIFEST.json from the table below (kept in one place so it is always valid)."""
import json, os, sys
HERE = os.path.dirname(os.path.dirname(os.path.abspath(__file__)))
PY = '/venv/bin/python -B run_check.py'

# id -> (technique, level text, level note, design section)
CHECKS = {}

def add(pid, technique, text, note, ref):
    CHECKS[pid] = dict(technique=technique, text=text, note=note, ref=ref)

exec(open(os.path.join(HERE, 'tools', 'manifest_table.py')).read())

props = [json.loads(l)['id'] for l in open(os.path.join(HERE, 'properties.jsonl'))]
checks = []
for pid in props:
    if pid not in CHECKS:
        continue
    c = CHECKS[pid]
    checks.append({
        'property_id': pid,
        'quick_cmd': f'{PY} {pid} --tier quick',
        'thorough_cmd': f'{PY} {pid} --tier thorough',
        'evidence_file': f'/verif/evidence/{pid}.json',
        'replay_cmd_template': f'{PY} {pid} --replay {{path}}',
        'engine': 'gmc',
        'level_claimed': {'category': 'model_checking', 'text': c['text'], 'design_ref': c['ref']},
        'level_note': c['note'],
        'technique': c['technique'],
    })
na = [{'property_id': p, 'reason': NOT_APPLICABLE.get(p, 'check not built yet (work in progress); see DESIGN.md section 5')}
      for p in props if p not in CHECKS]
m = {
    'version': 1,
    'setup_cmd': '/venv/bin/python -B tools/setup_check.py',
    'hooks': {
        'guard': 'GEARPY_VERIF',
        'enable': 'no source hooks exist: every seam used is public API (external_torque callback, RuleBase subclass, Powertrain.update_time, attribute setters); run_check.py sets GEARPY_VERIF=1 for uniformity only',
        'baseline_off_cmd': 'cd /repo && env -u GEARPY_VERIF /venv/bin/python -m pytest -ra -q -p no:cacheprovider --timeout=900 --continue-on-collection-errors',
        'source_commits': HOOK_COMMITS,
        'add_only': True,
    },
    'engines': [{
        'name': 'gmc',
        'path': '/verif/gmc',
        'serves_properties': [c['property_id'] for c in checks],
        'kind_free_text': 'hand-written explicit-state / bounded-exhaustive explorer for Python: BFS over event histories replayed on fresh real gearpy objects, full products and deviation-bounded enumerations of configurations and environment answers, every edge compared with a gearpy-free reference model (gmc/ref.py, gmc/si.py)',
    }],
    'checks': checks,
    'not_applicable': na,
    'notes': NOTES,
}
json.dump(m, open(os.path.join(HERE, 'MANIFEST.json'), 'w'), indent=1)
print('wrote MANIFEST.json with', len(checks), 'checks;', len(na), 'not claimed')
