#!/venv/bin/python
"""benign/REPORT.md from benign/*/result.json"""
import json, os
HERE = os.path.dirname(os.path.dirname(os.path.abspath(__file__)))
B = os.path.join(HERE, 'benign')
rows = []
for d in sorted(os.listdir(B)):
    rp = os.path.join(B, d, 'result.json')
    if not os.path.exists(rp):
        continue
    r = json.load(open(rp))
    files = sorted({l[6:].strip() for l in open(os.path.join(B, d, 'patch.diff')) if l.startswith('+++ b/')})
    n = sum(1 for l in open(os.path.join(B, d, 'patch.diff')) if l.startswith(('+', '-')) and not l.startswith(('+++', '---')))
    rows.append((d, ', '.join(f.replace('gearpy/', '') for f in files), n, ' '.join(sorted(r['checks'])), ' '.join(r['alarms']) or 'none', r.get('verdict', '')))
with open(os.path.join(B, 'REPORT.md'), 'w') as f:
    f.write('# Behaviour-preserving changes written by sub-agents: quick checks run against each\n\n')
    f.write('| id | files touched | changed lines | checks run | alarms | note |\n|---|---|---|---|---|---|\n')
    for r in rows:
        f.write('| ' + ' | '.join(str(x) for x in r) + ' |\n')
    f.write(f'\n{len(rows)} changes, {sum(1 for r in rows if r[4] == "none")} without any alarm.\n')
print(len(rows), 'rows')
