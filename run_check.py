#!/venv/bin/python
"""Entry point: /venv/bin/python -B run_check.py <id> --tier quick|thorough [--replay path]

gearpy is imported from /repo's working tree (editable install, checked below),
so every run exercises the sources as they are now.
"""
import os
import sys

HERE = os.path.dirname(os.path.abspath(__file__))


def _reexec_with_env():
    want = {'PYTHONHASHSEED': '0', 'MPLBACKEND': 'Agg', 'GEARPY_VERIF': '1',
            'OMP_NUM_THREADS': '1', 'OPENBLAS_NUM_THREADS': '1',
            'MKL_NUM_THREADS': '1', 'PYTHONWARNINGS': 'ignore',
            'PYTHONDONTWRITEBYTECODE': '1'}
    if all(os.environ.get(k) == v for k, v in want.items()):
        return
    env = dict(os.environ)
    env.update(want)
    os.execve(sys.executable, [sys.executable, '-B'] + sys.argv, env)


def main():
    _reexec_with_env()
    sys.path.insert(0, HERE)
    if len(sys.argv) < 2:
        print('usage: run_check.py <Cxx> [--tier quick|thorough] [--replay path]')
        return 2
    pid = sys.argv[1].upper()
    import gearpy
    root = os.path.realpath(os.path.dirname(os.path.dirname(gearpy.__file__)))
    expect = os.path.realpath(os.environ.get('GEARPY_REPO', '/repo'))
    if root != expect:
        print(f'gearpy is imported from {root}, expected {expect}')
        return 2
    from gmc import core
    return core.main(f'gmc.checks.{pid.lower()}', sys.argv[2:])


if __name__ == '__main__':
    sys.exit(main())
